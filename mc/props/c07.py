"""C07 — a chart's XML is valid and reports exactly the data it was given.

Engine: bounded-exhaustive input enumeration (E2) for `add_chart`, plus every `replace_data` history up to
a length bound over six representative shapes (E1-style: the state is the chart part, a transition is one
add_chart/replace_data call on the real library, the reference model is `c07_shapes.model`).

Enumerated (see c07_shapes.creation_shapes / history_shapes; all counts asserted against closed forms):
  creation   every writable XL_CHART_TYPE member (discovered behaviourally: add_chart does not raise
             NotImplementedError; floor 29) x
             A leaf counts {1,2,3,300} x label kinds {str, int, float, int_wide, float_wide (numbers that need
               7..17 significant digits: 20240131, 1000001, 2^31, 999999999999, 1234.5678, 0.12345678, 0.1+0.2, ..;
               none prints with an exponent), date<1900-03-01, date>=1900-03-01, datetime} x series {0,1,3};
             B every uniform-depth category forest with <=4 leaves, depth 2..3 (quick: 55) | <=6 leaves,
               depth 2..4 (thorough: 1792) x series {1,2}, values with None holes;
             C series counts {0,1,2,3,26,27} | 0..50 x leaves {1,3} x values {int,float(1e-07,-0.0,..),holes,empty};
             D four custom number formats (one containing '<') at chart-data, series and categories level;
             E one chart whose middle category label is the empty string;
             F RAGGED category data (c07_shapes.ragged_shapes): the per-series point counts differ from the
               number of leaf categories and from each other — every tuple of lengths {0..5}^ns over 3 flat
               categories, ns in {1,2} (thorough {1,2,3}), and {0,2,4,6}^ns (thorough {0..6}^ns), ns in {1,2},
               over a 2-level forest with 4 leaves: 62 (quick) | 314 (thorough) shapes, 'mixed' values;
             G the numeric TYPE alphabet (c07_shapes.NUM_TYPES: a bare int subclass, a bare float subclass,
               decimal.Decimal in plain notation, fractions.Fraction with denominator 1 — numbers that are neither
               `int` nor `float` but print as a plain decimal numeral) in every role: as series values (every third
               one None; 1 and 2 series), as category labels x {1,6} categories, as both: 20 shapes; plus, as
               series values only, fraction_ratio (Fraction(5,2), Fraction(-1,3), ..: a number whose str() is 'n/d'): 2 shapes;
             H categories ASSIGNED instead of added one by one (c07_shapes.VIA_KINDS): `cd.categories = <generator>`;
               assigned twice (the same labels); assigned over other labels; after an add_category; over a two-level
               hierarchy; after the series were added — x label kinds {str, float, date} (one per cache kind): 18 shapes;
             XY/bubble: series counts as C x length patterns {all 3, ragged (0,1,3), all 1, all 0} x values,
               300-point series, number formats, and the numeric type alphabet (fraction_ratio included) as X, Y and
               bubble size (10 shapes).
               Zero series is not generated for pie types (quantifier).
  histories  from each chart type and each of 6 representative shapes, every replace_data sequence of
             length <=2 (quick) | <=3 (thorough) over the 6 shapes (one of them has zero series); the same
             sequences from EVERY chart of a supported type in EVERY corpus deck (mc.drivers.fixtures.corpus();
             92 charts in 20 decks, among them charts whose series PowerPoint re-ordered: c:idx 2,3,0 for
             c:order 0,1,2); and, from generated 3-series charts whose c:idx/c:order were renumbered
             harness-side (saved part rewritten with bare lxml, deck re-opened) to {idx 2,3,0/order 0,1,2;
             idx 0,1,2/order 2,0,1; idx 0,5,6/order 0,1,2}, one replace_data with 2..6 series (shrink, same,
             grow by 1,2,3) on one chart type per writer family (thorough: every non-pie type).
             extra     on a one-series chart of EVERY chart type, one replace_data with (category types) every ragged
             shape of F (the first series re-uses the surviving c:ser, further ones are cloned), int_wide /
             float_wide labels x {1,7} categories, the typed shapes of G and the assigned-categories shapes of H
             (c07_shapes.replace_extra_shapes: 106 | 358 shapes); XY/bubble types: the 10 typed shapes;
             reuse     ONE chart-data object used twice (c07_shapes.reuse_pairs): add_chart(cd); cd changed through its
             own API — add_category (flat, and a new multi-level top category), add_sub_category, add_series,
             add_data_point, and `cd.categories = [...]` RE-ASSIGNED on the object that already has categories and
             series (the same labels; more labels, points added; fewer labels, so the data turns ragged; numeric
             labels over strings; flat labels over a two-level hierarchy); XY/bubble: every series position
             (first/middle/last) of 2- and 3-series data grown, a series added — then chart.replace_data(cd) or
             a second add_chart(cd); one chart type per writer family; the oracle runs after EACH use (both
             transitions checked), the reference model of the second use is model(after-shape).
             Each history path is executed from scratch; the LAST transition of a path is the one checked (its
             prefixes are paths of their own), so every distinct transition is checked exactly once.

Oracle per transition (observable behaviour only: public read API, exceptions, `chart.part.blob` parsed
with bare lxml):
  a. strict chart schema on the MCE-preprocessed part. add_chart: every error is reported, grouped by
     message class and writer family. replace_data (generated and corpus): error-set monotonicity — the
     normalised error set after the call must be a subset of the set before it.
  b. read API: series over `chart.plots[*].series` — names and values equal the supplied data (None where
     missing, numbers compared numerically); `plot.categories` flattened labels, `.depth`, `.levels`
     (offset + label per level) and `.flattened_labels` equal the supplied categories: strings verbatim,
     numbers/dates as a plain decimal numeral whose value is the number / the serial date (so '59' and
     '59.0' are both accepted). X values and bubble sizes are not exposed by the read API and are compared
     in the part XML instead.
  c. `c:ser/c:idx/@val` unique and `c:ser/c:order/@val` unique across the chart.
  d. replace_data preservation: before the first replace_data of a path a formatting marker is planted
     through the public API on every series (solid fill colour), the legend, the title and the axes. The
     markers are read back just before and just after the checked call: those of surviving series, legend,
     title and axes must read the same; the c14n of
     the part minus `c:tx|c:cat|c:val|c:xVal|c:yVal|c:bubbleSize` of series is unchanged for every series
     present before and after (matched by c:idx), and the part with all series removed and plots without a
     surviving series removed is unchanged. min(before, supplied) series must survive.

Input domain of "number": the types whose str() is a plain decimal numeral (int, float, their subclasses, Decimal in
plain notation, integral Fraction) in every role, and — central triage decision — Fraction with a denominator as a
VALUE (series value, XY/bubble X, Y, size; not as a label). The unchanged library writes c:v '5/2' for the latter and
`series.values` raises ValueError: reported as `C07|readback|read-raised|op=..|kind=..|value-type=fraction_ratio`.
Left out (arguable): bool (c:v 'True'), Decimal in exponent notation.

Deviations from DESIGN.md: `None` category labels are not enumerated (undocumented input). With zero
series the supplied categories cannot be reported by any plot, so only series/validity are checked.
Whitespace-only text nodes are ignored in the preservation comparison. An operation that raises ends its
path (the shorter path reports it). Signatures carry the writer family (add_chart) or the data kind
(replace_data), never chart-type names, counters or seeds.
"""

from __future__ import annotations

import copy
import hashlib
import io
import os
import re

from lxml import etree

from mc.core.parallel import fanout
from mc.core.run import HarnessError
from mc.props import c07_shapes as S

LEVEL = "model_checking"
RULE = ("state = canonical chart part; transition = one add_chart or replace_data call executed on the library; "
        "every transition is compared with the reference model (schema error set, read-back of names/values/"
        "categories, idx/order uniqueness, preservation of everything but series data). Creation inputs: the full "
        "product described in the module docstring per writable chart type; histories: all replace_data sequences "
        "up to the length bound over 6 shapes from each (type, shape) and from each corpus chart, plus one "
        "replace_data per ragged / wide-numeric-label / typed-number / assigned-categories shape on every chart type, "
        "plus one chart-data object used twice with a growth or a categories re-assignment in between. Non-trivial = "
        "transitions whose supplied data has at least one series with at least one point or category (the "
        "read-back comparison is non-empty), counted per distinct (chart, path).")
ASSUMPTIONS = [
    "bounded: leaf counts {1,2,3,300}, forests <=4 leaves/depth<=3 (quick) or <=6 leaves/depth<=4 (thorough), "
    "series counts {0,1,2,3,26,27} (quick) or 0..50 (thorough), history length <=2 (quick) or <=3 (thorough) over 6 shapes",
    "ragged data (series lengths != leaf count): lengths {0..5} over 3 flat categories and {0,2,4,6} (thorough 0..6) over "
    "4 two-level leaves, 1-2 (thorough flat: 1-3) series; through add_chart on every type and through ONE replace_data "
    "on a one-series chart of every category type (not inside longer histories)",
    "numeric category labels: small ints, short floats and a 12-member alphabet of 7..17-significant-digit numbers, all "
    "of which Python prints without an exponent; numbers whose str() is exponent notation (1e-07, 1e+20) are not enumerated "
    "as labels because 'decimal text' is ambiguous for them",
    "trusted base: libxml2 XSD validation of /repo/spec ISO-IEC-29500-4 dml-chart.xsd after MCE preprocessing; lxml c14n",
    "reference model of the supplied data (mc/props/c07_shapes.py) is hand-written and does not import pptx",
    "None category labels and non-string series names are outside the documented input domain and not enumerated",
    "numeric types: int, float, a bare int subclass, a bare float subclass, decimal.Decimal (plain notation), "
    "fractions.Fraction with denominator 1, as values, labels, X values and bubble sizes; Fraction with a denominator as "
    "values, X values and bubble sizes only (not as labels); bool and exponent-notation Decimal are outside the domain "
    "(arguable); numpy scalars are not installed here and not enumerated",
    "chart-data construction paths: add_category/add_sub_category calls, `categories = iterable` (6 paths of VIA_KINDS, flat "
    "labels of 3 kinds only) and 5 re-assignments on a used object; assignment of hierarchical categories does not exist in the API",
    "numeric/date category labels are accepted in any plain decimal form equal in value to the number/serial",
]

NS_C = "http://schemas.openxmlformats.org/drawingml/2006/chart"
C = "{%s}" % NS_C
DATA_TAGS = {C + t for t in ("tx", "cat", "val", "xVal", "yVal", "bubbleSize")}
PFX = {NS_C: "c", "http://schemas.openxmlformats.org/drawingml/2006/main": "a",
       "http://schemas.openxmlformats.org/officeDocument/2006/relationships": "r"}
CHART_DECKS3 = ["features/steps/test_files/cht-replace-data.pptx", "features/steps/test_files/cht-chart-type.pptx",
                "features/steps/test_files/cht-series.pptx"]  # C08's corpus slice
CORPUS_DECKS = CHART_DECKS3  # kept for callers; C07 itself walks the whole corpus (all_corpus_decks())
MARK_TITLE = "C07 marker title"
_bare = etree.XMLParser(remove_blank_text=False, resolve_entities=False)

REPO = os.environ.get("VERIF_REPO", "/repo")


def all_corpus_decks():
    """Every .pptx/.pptm shipped in the repository, as paths relative to the repository root."""
    from mc.drivers import fixtures
    return [fixtures.corpus_name(p) for p in fixtures.corpus()]


# ---- discovery --------------------------------------------------------------------------------------------

def _tiny(kind):
    return {"cat": {"k": "cat", "lab": "str", "n": 2, "ns": 1, "vk": "int"},
            "xy": {"k": "xy", "lens": [2], "vk": "int"},
            "bubble": {"k": "bubble", "lens": [2], "vk": "int"}}[kind]


def writable_types():
    """Names of XL_CHART_TYPE members for which add_chart does not raise NotImplementedError."""
    from pptx import Presentation
    from pptx.enum.chart import XL_CHART_TYPE
    prs = Presentation()
    slide = prs.slides.add_slide(prs.slide_layouts[6])
    out = []
    for m in XL_CHART_TYPE:
        try:
            slide.shapes.add_chart(m, 0, 0, 914400, 914400, S.build(_tiny(S.kind_of(m.name))))
        except NotImplementedError:
            continue
        except Exception:
            pass  # writable but broken: the enumeration will report it
        out.append(m.name)
    return sorted(out)


# ---- small XML helpers --------------------------------------------------------------------------------------

def part_root(chart):
    return etree.fromstring(chart.part.blob, _bare)


def canon(root):
    return etree.tostring(root, method="c14n")


def _q(tag):
    q = etree.QName(tag)
    return "%s:%s" % (PFX.get(q.namespace, "?"), q.localname)


def xcharts(root):
    pa = root.find("%schart/%splotArea" % (C, C))
    if pa is None:
        return []
    return [el for el in pa if isinstance(el.tag, str) and etree.QName(el.tag).localname.endswith("Chart")]


def sers_in_order(root):
    """c:ser elements: plots in document order, series by c:order within a plot."""
    out = []
    for xc in xcharts(root):
        sers = xc.findall(C + "ser")

        def order(s):
            o = s.find(C + "order")
            try:
                return int(o.get("val"))
            except (AttributeError, TypeError, ValueError):
                return 0
        out.extend(sorted(sers, key=order))
    return out


def xsd_errors(root):
    from mc.oracles.xsd import SchemaSet, mce_preprocess, normalise_errors
    return normalise_errors(SchemaSet.get(False).errors(mce_preprocess(root)))


def err_class(path, msg):
    """Stable class of a libxml2 validation message (no literal values except a sign class)."""
    m = re.match(r"Element '\{([^}]*)\}([^']+)'(?:, attribute '([^']+)')?: (.*)$", msg, re.S)
    if not m:
        return re.sub(r"'[^']*'", "'?'", msg)[:100]
    el = "%s:%s" % (PFX.get(m.group(1), "?"), m.group(2))
    attr, rest = m.group(3), m.group(4)
    steps = [s for s in path.split("/") if s]
    parent = steps[-2] if len(steps) >= 2 else ""
    v = re.match(r"(?:\[[^\]]*\] )?'([^']*)' is not a valid value of the (?:local )?(?:atomic|union|list) type(?: '([^']+)')?", rest)
    if v:
        t = v.group(2) or "local"
        if t == "xs:unsignedInt" and re.fullmatch(r"-\d+", v.group(1)):
            return "%s-negative" % el
        return "%s@%s-not-%s" % (el, attr or "text", t)
    plotless = "}areaChart" in rest  # the schema was still waiting for the first plot of c:plotArea
    if rest.startswith("This element is not expected"):
        if parent == "c:plotArea" and plotless:
            return "c:plotArea-without-plot"
        return "%s/%s-unexpected" % (parent, el)
    if rest.startswith("Missing child element"):
        if el == "c:plotArea" and plotless:
            return "c:plotArea-without-plot"
        return "%s-missing-child" % el
    return "%s%s:%s" % (el, "@" + attr if attr else "", re.sub(r"'[^']*'", "'?'", rest)[:80])


# ---- oracle b: read-back --------------------------------------------------------------------------------------

_DEC = re.compile(r"-?\d+(\.\d+)?$")


def _num_eq(a, b):
    if a is None or b is None:
        return a is None and b is None
    try:
        return float(a) == float(b)
    except (TypeError, ValueError):
        return False


def _seq_eq(got, exp):
    return len(got) == len(exp) and all(_num_eq(g, e) for g, e in zip(got, exp))


def _label_ok(got, exp):
    kind, want = exp
    if kind == "s":
        return got == want
    return isinstance(got, str) and bool(_DEC.match(got)) and float(got) == float(want)


def _brief(x, n=8):
    x = list(x)
    return repr(x[:n]) + ("...(%d)" % len(x) if len(x) > n else "")


def _xml_num_lists(root, tag):
    """Per series (plot/order sequence) the list of cached numbers under c:<tag>, None where no c:pt."""
    out = []
    for ser in sers_in_order(root):
        el = ser.find(C + tag)
        if el is None:
            out.append(None)
            continue
        cnt = el.find(".//%sptCount" % C)
        n = int(cnt.get("val")) if cnt is not None else 0
        vals = [None] * n
        for pt in el.iter(C + "pt"):
            i = int(pt.get("idx"))
            v = pt.find(C + "v")
            if 0 <= i < n:
                try:
                    vals[i] = float(v.text)
                except (TypeError, ValueError, AttributeError):
                    vals[i] = v.text if v is not None else None
            else:
                vals.append(("idx-out-of-range", i))
        out.append(vals)
    return out


def readback(chart, root, m):
    """[(aspect, detail)] where the read API (or, for X/size, the part XML) disagrees with model m."""
    bad = []
    try:
        plots = list(chart.plots)
        series = [s for p in plots for s in p.series]
        names = [s.name for s in series]
        values = [tuple(s.values) for s in series]
    except Exception as e:  # noqa: BLE001
        return [("read-raised", "reading plots/series raised %r" % (e,))]
    if len(series) != len(m.names):
        return [("series-count", "supplied %d series, plots report %d (%s)" % (len(m.names), len(series), _brief(names, 4)))]
    if names != m.names:
        bad.append(("series-name", "supplied %s, read %s" % (_brief(m.names, 4), _brief(names, 4))))
    for i, (got, exp) in enumerate(zip(values, m.values)):
        if not _seq_eq(got, exp):
            bad.append(("series-values", "series %d: supplied %s, read %s" % (i, _brief(exp), _brief(got))))
            break
    if m.kind == "cat":
        if m.names:
            for pi, p in enumerate(plots):
                try:
                    cats = p.categories
                    flat = [str(c) for c in cats]
                    ln = len(cats)
                    depth = cats.depth
                    levels = [[(c.idx, str(c)) for c in lvl] for lvl in cats.levels]
                    fl = [tuple(t) for t in cats.flattened_labels]
                except Exception as e:  # noqa: BLE001
                    bad.append(("read-raised", "plot %d categories raised %r" % (pi, e)))
                    break
                if ln != len(m.leaves) or len(flat) != len(m.leaves) or not all(_label_ok(g, e) for g, e in zip(flat, m.leaves)):
                    bad.append(("categories-flat", "plot %d: supplied %s, read %s (len %d)" % (
                        pi, _brief([e[1] for e in m.leaves]), _brief(flat), ln)))
                    break
                if depth != m.depth:
                    bad.append(("categories-depth", "plot %d: supplied depth %d, read %d" % (pi, m.depth, depth)))
                    break
                if m.depth >= 2:
                    if levels != [[(o, l) for o, l in lvl] for lvl in m.levels]:
                        bad.append(("categories-levels", "plot %d: supplied %r, read %r" % (pi, m.levels, levels)))
                        break
                    if fl != list(m.paths):
                        bad.append(("categories-paths", "plot %d: supplied %r, read %r" % (pi, m.paths, fl)))
                        break
    else:
        xs = _xml_num_lists(root, "xVal")
        for i, exp in enumerate(m.xs):
            if xs[i] is None or not _seq_eq(xs[i], exp):
                bad.append(("x-values", "series %d: supplied %s, part has %s" % (i, _brief(exp), _brief(xs[i] or []))))
                break
        if m.kind == "bubble":
            sz = _xml_num_lists(root, "bubbleSize")
            for i, exp in enumerate(m.sizes):
                if sz[i] is None or not _seq_eq(sz[i], exp):
                    bad.append(("bubble-sizes", "series %d: supplied %s, part has %s" % (i, _brief(exp), _brief(sz[i] or []))))
                    break
    return bad


# ---- oracle c: idx / order ----------------------------------------------------------------------------------------

def idx_order_dups(root):
    bad = []
    for tag in ("idx", "order"):
        vals = [(s.find(C + tag).get("val") if s.find(C + tag) is not None else None) for s in root.iter(C + "ser")]
        dup = sorted({v for v in vals if vals.count(v) > 1}, key=str)
        if dup:
            bad.append((tag, "c:%s values not unique: %s (all: %s)" % (tag, dup[:5], _brief(vals, 12))))
    return bad


# ---- oracle d: preservation -----------------------------------------------------------------------------------------

def _strip_ws(root):
    for el in root.iter():
        if el.text is not None and not el.text.strip() and len(el):
            el.text = None
        if el.tail is not None and not el.tail.strip():
            el.tail = None


def skeleton(root):
    """(tree without series data, {idx: c14n of the series without its data subtrees})."""
    root = copy.deepcopy(root)
    _strip_ws(root)
    sers = {}
    for ser in root.iter(C + "ser"):
        idx = ser.find(C + "idx")
        key = idx.get("val") if idx is not None else None
        for ch in list(ser):
            if ch.tag in DATA_TAGS:
                ser.remove(ch)
        sers.setdefault(key, []).append(canon(ser))
    return root, sers


def frame(skel_root, keep):
    """c14n of the part with every series removed and plots without a series in `keep` removed."""
    root = copy.deepcopy(skel_root)
    for xc in xcharts(root):
        alive = False
        for ser in xc.findall(C + "ser"):
            idx = ser.find(C + "idx")
            if idx is not None and idx.get("val") in keep:
                alive = True
            xc.remove(ser)
        if not alive:
            xc.getparent().remove(xc)
    return canon(root)


def _first_diff(a, b):
    n = min(len(a), len(b))
    i = next((k for k in range(n) if a[k] != b[k]), n)
    lo = max(0, i - 60)
    return "...%s | ...%s" % (a[lo:i + 80].decode("utf-8", "replace"), b[lo:i + 80].decode("utf-8", "replace"))


def plant(chart):
    """Plant formatting markers through the public API; returns what was planted (JSON-able)."""
    from pptx.dml.color import RGBColor
    from pptx.enum.chart import XL_LEGEND_POSITION
    planted = {"series": {}, "legend": False, "title": False, "cat_axis": False, "val_axis": False}
    n = 0
    for p in chart.plots:
        for s in p.series:
            rgb = "%02X%02X%02X" % (0x12, 0x34, 0x40 + (n % 150))
            s.format.fill.solid()
            s.format.fill.fore_color.rgb = RGBColor.from_string(rgb)
            planted["series"][str(s.index)] = rgb
            n += 1
        # point-level formatting on the LAST series of the plot (the one replace_data clones from when it needs more
        # series): c:dPt content belongs to the surviving series and is compared by preservation()
        sers = list(p.series)
        if sers:
            try:
                pts = sers[-1].points
                if len(pts):
                    pts[0].format.fill.solid()
                    pts[0].format.fill.fore_color.rgb = RGBColor.from_string("654321")
                    planted["point"] = True
            except Exception:  # noqa: BLE001   (what point formatting accepts is C09's business)
                pass
    chart.has_legend = True
    chart.legend.position = XL_LEGEND_POSITION.TOP
    chart.legend.include_in_layout = False
    planted["legend"] = True
    chart.has_title = True
    chart.chart_title.text_frame.text = MARK_TITLE
    planted["title"] = True
    try:
        chart.category_axis.has_major_gridlines = True
        planted["cat_axis"] = True
    except ValueError:
        pass
    try:
        chart.value_axis.has_minor_gridlines = True
        planted["val_axis"] = True
    except ValueError:
        pass
    return planted


def read_markers(chart, planted):
    """The planted markers as the public API reports them now. Only reads that do not create elements on a
    chart that went through plant(): every series has a solid fill (clones inherit it)."""
    marks = {"series": {}}
    for p in chart.plots:
        for s in p.series:
            try:
                marks["series"][str(s.index)] = str(s.format.fill.fore_color.rgb)
            except Exception as e:  # noqa: BLE001
                marks["series"][str(s.index)] = "unreadable: %s" % type(e).__name__
    legend = chart.legend if chart.has_legend else None
    marks["legend"] = None if legend is None else (str(legend.position), legend.include_in_layout)
    marks["title"] = chart.chart_title.text_frame.text if chart.has_title else None
    marks["cat_axis"] = bool(chart.category_axis.has_major_gridlines) if planted["cat_axis"] else None
    marks["val_axis"] = bool(chart.value_axis.has_minor_gridlines) if planted["val_axis"] else None
    return marks


def markers_missing(chart, planted, marks_before, survivors):
    """Markers (as read just BEFORE the checked call) that no longer read back for the surviving series,
    the legend, the title and the axes."""
    bad = []
    try:
        now = read_markers(chart, planted)
    except Exception as e:  # noqa: BLE001
        return [("marker-read-raised", "reading markers raised %r" % (e,))]
    for idx in sorted(survivors, key=str):
        was = marks_before["series"].get(idx)
        if was is not None and now["series"].get(idx) != was:
            bad.append(("marker-series-fill", "series idx %s: fill was %s before the call, now %s" % (idx, was, now["series"].get(idx))))
            break
    for key, name in (("legend", "marker-legend"), ("title", "marker-title"), ("cat_axis", "marker-axis"), ("val_axis", "marker-axis")):
        if marks_before[key] is not None and now[key] != marks_before[key]:
            bad.append((name, "%s marker was %r before the call, now %r" % (key, marks_before[key], now[key])))
    return bad


def preservation(before_root, after_root, n_new):
    bad = []
    b_root, b_sers = skeleton(before_root)
    a_root, a_sers = skeleton(after_root)
    survivors = {k for k in b_sers if k in a_sers}
    n_before = sum(len(v) for v in b_sers.values())
    want = min(n_before, n_new)
    if len(survivors) != want:
        bad.append(("survivor-count", "%d series before, %d supplied: %d should survive, %d did (idx before %s, after %s)" % (
            n_before, n_new, want, len(survivors), sorted(b_sers, key=str)[:8], sorted(a_sers, key=str)[:8])))
    for k in sorted(survivors, key=str):
        if b_sers[k] != a_sers[k]:
            bad.append(("surviving-series", "series idx %s changed outside its data: %s" % (k, _first_diff(b_sers[k][0], a_sers[k][0]))))
            break
    fb, fa = frame(b_root, survivors), frame(a_root, survivors)
    if fb != fa:
        bad.append(("non-series-content", "chart content outside the series changed: %s" % _first_diff(fb, fa)))
    return bad, survivors


# ---- case execution ---------------------------------------------------------------------------------------------------

_DECK_BYTES = {}


def _deck_bytes(name):
    if name not in _DECK_BYTES:
        with open(os.path.join(REPO, name), "rb") as f:
            _DECK_BYTES[name] = f.read()
    return _DECK_BYTES[name]


def corpus_charts(types=None, decks=None):
    """[(deck, slide index, shape index, chart type name)] for every chart of the given corpus decks whose
    chart type is one of the supported (writable) types; the 3-D area charts of cht-chart-type.pptx are
    outside the property's "every supported chart type" (their series cannot even be read)."""
    from pptx import Presentation
    out = []
    for deck in (CHART_DECKS3 if decks is None else decks):
        prs = Presentation(io.BytesIO(_deck_bytes(deck)))
        for si, sl in enumerate(prs.slides):
            for hi, sh in enumerate(sl.shapes):
                if getattr(sh, "has_chart", False):
                    tname = sh.chart.chart_type.name
                    if types is None or tname in types:
                        out.append((deck, si, hi, tname))
    return out


class Slides:
    """Hands out a slide of a blank deck; a fresh deck every `per` charts (or on demand)."""

    def __init__(self, per=30):
        self.per, self.n, self.slide, self.prs = per, 0, None, None

    def get(self, fresh=False):
        from pptx import Presentation
        if self.slide is None or fresh or self.n >= self.per:
            self.prs = Presentation()
            self.slide = self.prs.slides.add_slide(self.prs.slide_layouts[6])
            self.n = 0
        self.n += 1
        return self.slide

    def reset(self):
        self.slide = None


PERMS = [
    {"idx": [2, 3, 0], "order": [0, 1, 2]},   # what PowerPoint leaves after series were re-ordered
    {"idx": [0, 1, 2], "order": [2, 0, 1]},   # document order differs from c:order sequence
    {"idx": [0, 5, 6], "order": [0, 1, 2]},   # gap in c:idx
]
PERM_GROWTH = [-1, 0, 1, 2, 3]


def perm_specs(kind, growth):
    """(creation shape with 3 series, replacement shape with 3+growth series)."""
    if kind == "cat":
        return ({"k": "cat", "lab": "str", "n": 3, "ns": 3, "vk": "int"},
                {"k": "cat", "lab": "str", "n": 2, "ns": 3 + growth, "vk": "float"})
    return ({"k": kind, "lens": [2, 2, 2], "vk": "int"}, {"k": kind, "lens": [2] * (3 + growth), "vk": "float"})


def _renumber_series(prs_bytes, perm):
    """Harness-side: rewrite c:idx / c:order of the series (document order) of the single chart part of a
    saved deck with bare lxml and the harness's own zip writer."""
    from mc.drivers.fixtures import write_zip, zip_members
    members = zip_members(prs_bytes)
    names = [n for n in members if n.startswith("ppt/charts/chart") and n.endswith(".xml")]
    if len(names) != 1:
        raise HarnessError("renumbering expects one chart part, found %d" % len(names))
    root = etree.fromstring(members[names[0]], _bare)
    sers = list(root.iter(C + "ser"))
    if len(sers) != len(perm["idx"]):
        raise HarnessError("renumbering expects %d series, chart has %d" % (len(perm["idx"]), len(sers)))
    for ser, i, o in zip(sers, perm["idx"], perm["order"]):
        ser.find(C + "idx").set("val", str(i))
        ser.find(C + "order").set("val", str(o))
    members[names[0]] = etree.tostring(root, xml_declaration=True, encoding="UTF-8", standalone=True)
    return write_zip(members)


def _idx_order_irregular(corpus_entry):
    from pptx import Presentation
    deck, si, hi, _ = corpus_entry
    chart = Presentation(io.BytesIO(_deck_bytes(deck))).slides[si].shapes[hi].chart
    sers = sers_in_order(part_root(chart))
    idx = [int(x.find(C + "idx").get("val")) for x in sers]
    return bool(idx) and idx[-1] != max(idx)


def _ctx_add(fam):
    return "op=add_chart|writer=%s" % fam


def _ctx_rep(kind):
    return "op=replace_data|kind=%s" % kind


def _readback_sig(aspect, ctx_s, spec):
    if S.value_type(spec) in S.VALUE_ONLY_NUM_TYPES and aspect == "read-raised":
        # one signature per rule x op x kind for a value-only numeric type, named in the signature; never merged with
        # the signatures of the other types (those keep the writer family / data kind context below)
        return "C07|readback|%s|%s|kind=%s|value-type=%s" % (aspect, ctx_s.split("|")[0], spec["k"], S.value_type(spec))
    if aspect.startswith("categories"):
        if S.has_empty_label(spec):
            # the reader, not a writer family, decides how an empty label comes back
            return "C07|readback|%s|labels=empty-string" % aspect
        if spec.get("via"):
            # the chart-data object, not a writer family, decides what categories an assignment leaves behind
            return "C07|readback|%s|labels=%s|categories-via=%s" % (aspect, S.label_kind(spec), spec["via"])
        return "C07|readback|%s|%s|labels=%s" % (aspect, ctx_s, S.label_kind(spec))
    return "C07|readback|%s|%s" % (aspect, ctx_s)


def _raise_sig(op, exc, n_prev, spec):
    if isinstance(exc, etree.XMLSyntaxError) and S.has_markup_number_format(spec):
        return "C07|op-raised|number_format-unescaped|XMLSyntaxError"
    if op == "replace_data" and n_prev == 0:
        # one rewriter base class serves every kind: a chart whose plot has no series to clone from
        return "C07|op-raised|replace_data|%s|prior=plot-without-series" % type(exc).__name__
    parts = []
    if op == "replace_data":
        parts.append("prior-series=>0")
    parts.append("new-series=%s" % ("0" if S.series_count(spec) == 0 else ">0"))
    return "C07|op-raised|%s|%s|%s|kind=%s" % (op, type(exc).__name__, ",".join(parts), spec["k"])


def exec_case(case, emit, part=None, check_all=False, slides=None):
    """Execute one path. emit(signature, what) per violation of a CHECKED transition. Returns info dict."""
    from pptx import Presentation
    ops = case["ops"]
    info = {"dead": False, "state": None, "nontrivial": False, "unreachable": False, "pruned": False}

    def tally(key, n=1):
        if part is not None:
            part.count(key, n)

    def outcome(op, label):
        if part is not None:
            part.outcome(op, label)

    if case["src"] == "genperm":
        from pptx.enum.chart import XL_CHART_TYPE
        tname = case["type"]
        kind = S.kind_of(tname)
        prs = Presentation()
        slide = prs.slides.add_slide(prs.slide_layouts[6])
        slide.shapes.add_chart(getattr(XL_CHART_TYPE, tname), 0, 0, 3000000, 2000000, S.build(ops[0]))
        buf = io.BytesIO()
        prs.save(buf)
        prs = Presentation(io.BytesIO(_renumber_series(buf.getvalue(), case["perm"])))
        chart = next(sh.chart for sh in prs.slides[0].shapes if getattr(sh, "has_chart", False))
        steps = ops[1:]
        where = "%s created with %s, series renumbered c:idx %s c:order %s and re-opened" % (
            tname, _spec_brief(ops[0]), case["perm"]["idx"], case["perm"]["order"])
    elif case["src"] == "gen":
        from pptx.enum.chart import XL_CHART_TYPE
        tname = case["type"]
        fam, kind = S.family_of(tname), S.kind_of(tname)
        spec0 = ops[0]
        only = len(ops) == 1
        checked = only or check_all
        data = S.build(spec0)
        slide = slides.get() if slides is not None else Slides().get()
        try:
            gf = slide.shapes.add_chart(getattr(XL_CHART_TYPE, tname), 0, 0, 3000000, 2000000, data)
        except Exception as e:  # noqa: BLE001
            if slides is not None:
                slides.reset()
            if checked:
                tally("transitions")
                tally("traces_validated_against_impl")
                outcome("add_chart", "raised:" + type(e).__name__)
                emit(_raise_sig("add_chart", e, 0, spec0), "add_chart(%s, %s) raised %r" % (tname, _spec_brief(spec0), e))
            info["dead"] = True
            info["unreachable"] = not checked
            return info
        chart = gf.chart
        if checked:
            tally("transitions")
            tally("traces_validated_against_impl")
            outcome("add_chart", "ok")
            root = part_root(chart)
            m = S.model(spec0)
            errs = xsd_errors(root)
            outcome("xsd-after-add_chart", "valid" if not errs else "errors")
            for cls in sorted({err_class(p, msg) for p, msg in errs}):
                ex = next((p, msg) for p, msg in sorted(errs) if err_class(p, msg) == cls)
                emit("C07|xsd|%s|writer=%s" % (cls, fam), "add_chart(%s, %s): %s: %s" % (tname, _spec_brief(spec0), ex[0], ex[1]))
            for aspect, detail in readback(chart, root, m):
                emit(_readback_sig(aspect, _ctx_add(fam), spec0), "add_chart(%s, %s): %s" % (tname, _spec_brief(spec0), detail))
            for tag, detail in idx_order_dups(root):
                emit("C07|unique|c:%s|%s" % (tag, _ctx_add(fam)), "add_chart(%s, %s): %s" % (tname, _spec_brief(spec0), detail))
            info["state"] = hashlib.sha1(canon(root)).hexdigest()[:16]
            info["nontrivial"] = S.series_count(spec0) > 0 and (S.point_total(spec0) > 0 or kind == "cat")
        steps = ops[1:]
        where = "%s created with %s" % (tname, _spec_brief(spec0))
    else:
        prs = Presentation(io.BytesIO(_deck_bytes(case["deck"])))
        chart = prs.slides[case["slide"]].shapes[case["shape"]].chart
        tname = chart.chart_type.name
        kind = S.kind_of(tname)
        steps = ops
        where = "%s slide %d shape %d (%s)" % (case["deck"], case["slide"], case["shape"], tname)

    if not steps:
        return info
    planted = plant(chart) if case.get("plant", True) else None
    date1904 = False
    for si, spec in enumerate(steps):
        last = si == len(steps) - 1
        checked = last or check_all
        data = S.build(spec)
        marks_before = None
        if checked and planted is not None and xcharts(part_root(chart)):
            marks_before = read_markers(chart, planted)  # read first, snapshot the XML afterwards
        before = part_root(chart)
        if not xcharts(before):
            # error state: an earlier replace_data (reported by its own path) left c:plotArea without any
            # plot; nothing is promised about a chart in that state, so the path is pruned here
            info["dead"] = True
            info["pruned"] = True
            return info
        if checked:
            d = before.find(C + "date1904")
            date1904 = d is not None and d.get("val", "1") in ("1", "true")
        try:
            chart.replace_data(data)
        except Exception as e:  # noqa: BLE001
            if checked:
                tally("transitions")
                tally("traces_validated_against_impl")
                outcome("replace_data", "raised:" + type(e).__name__)
                n_prev = len(list(before.iter(C + "ser")))
                emit(_raise_sig("replace_data", e, n_prev, spec),
                     "%s, after %s: replace_data(%s) raised %r" % (where, _path_brief(steps[:si]), _spec_brief(spec), e))
            info["dead"] = True
            info["unreachable"] = not checked
            return info
        if not checked:
            continue
        tally("transitions")
        tally("traces_validated_against_impl")
        outcome("replace_data", "ok")
        after = part_root(chart)
        ctx_s = _ctx_rep(kind)
        desc = "%s, after %s: replace_data(%s)" % (where, _path_brief(steps[:si]), _spec_brief(spec))
        nser = "new-series=%s" % ("0" if S.series_count(spec) == 0 else ">0")
        eb, ea = xsd_errors(before), xsd_errors(after)
        new = ea - eb
        outcome("xsd-after-replace_data", "no-new-errors" if not new else "new-errors")
        for cls in sorted({err_class(p, msg) for p, msg in new}):
            ex = next((p, msg) for p, msg in sorted(new) if err_class(p, msg) == cls)
            emit("C07|xsd-after-replace|%s|%s" % (cls, nser), "%s: new schema error %s: %s" % (desc, ex[0], ex[1]))
        m = S.model(spec, date1904)
        for aspect, detail in readback(chart, after, m):
            emit(_readback_sig(aspect, ctx_s, spec), "%s: %s" % (desc, detail))
        for tag, detail in idx_order_dups(after):
            if any(t == tag for t, _ in idx_order_dups(before)):
                continue  # already duplicated before the call (corpus chart): not this transition's doing
            emit("C07|unique|c:%s|%s" % (tag, ctx_s), "%s: %s" % (desc, detail))
        n_before = len(list(before.iter(C + "ser")))
        n_new = S.series_count(spec)
        trend = "grow" if n_new > n_before else ("shrink" if n_new < n_before else "same")
        pres, survivors = preservation(before, after, n_new)
        for aspect, detail in pres:
            emit("C07|preserve|%s|%s|%s" % (aspect, trend, nser), "%s: %s" % (desc, detail))
        if marks_before is not None:
            for aspect, detail in markers_missing(chart, planted, marks_before, survivors):
                emit("C07|preserve|%s|%s|%s" % (aspect, trend, nser), "%s: %s" % (desc, detail))
        if last:
            info["state"] = hashlib.sha1(canon(after)).hexdigest()[:16]
            info["nontrivial"] = n_new > 0 and (S.point_total(spec) > 0 or kind == "cat")
    return info


REUSE_SECOND = ["replace_data", "add_chart"]


def _oracle_after_add(chart, tname, spec, emit, desc):
    """Oracle a+b+c for a chart just created from `spec`; returns the part root."""
    fam = S.family_of(tname)
    root = part_root(chart)
    errs = xsd_errors(root)
    for cls in sorted({err_class(p, msg) for p, msg in errs}):
        ex = next((p, msg) for p, msg in sorted(errs) if err_class(p, msg) == cls)
        emit("C07|xsd|%s|writer=%s" % (cls, fam), "%s: %s: %s" % (desc, ex[0], ex[1]))
    for aspect, detail in readback(chart, root, S.model(spec)):
        emit(_readback_sig(aspect, _ctx_add(fam), spec), "%s: %s" % (desc, detail))
    for tag, detail in idx_order_dups(root):
        emit("C07|unique|c:%s|%s" % (tag, _ctx_add(fam)), "%s: %s" % (desc, detail))
    return root


def _oracle_after_replace(chart, before, tname, spec, emit, desc):
    """Oracle a (subset rule) + b + c + d (structure only) for a chart whose data was just replaced by `spec`."""
    kind = S.kind_of(tname)
    after = part_root(chart)
    nser = "new-series=%s" % ("0" if S.series_count(spec) == 0 else ">0")
    new = xsd_errors(after) - xsd_errors(before)
    for cls in sorted({err_class(p, msg) for p, msg in new}):
        ex = next((p, msg) for p, msg in sorted(new) if err_class(p, msg) == cls)
        emit("C07|xsd-after-replace|%s|%s" % (cls, nser), "%s: new schema error %s: %s" % (desc, ex[0], ex[1]))
    d = before.find(C + "date1904")
    date1904 = d is not None and d.get("val", "1") in ("1", "true")
    for aspect, detail in readback(chart, after, S.model(spec, date1904)):
        emit(_readback_sig(aspect, _ctx_rep(kind), spec), "%s: %s" % (desc, detail))
    dup_before = {t for t, _ in idx_order_dups(before)}
    for tag, detail in idx_order_dups(after):
        if tag not in dup_before:
            emit("C07|unique|c:%s|%s" % (tag, _ctx_rep(kind)), "%s: %s" % (desc, detail))
    n_before = len(list(before.iter(C + "ser")))
    n_new = S.series_count(spec)
    trend = "grow" if n_new > n_before else ("shrink" if n_new < n_before else "same")
    pres, _ = preservation(before, after, n_new)
    for aspect, detail in pres:
        emit("C07|preserve|%s|%s|%s" % (aspect, trend, nser), "%s: %s" % (desc, detail))
    return after


def exec_reuse(case, emit, part=None):
    """ONE chart-data object used twice: add_chart(cd); grow cd through its API; replace_data(cd) or a second
    add_chart(cd). The full oracle runs after EACH use (two checked transitions per path)."""
    from pptx import Presentation
    from pptx.enum.chart import XL_CHART_TYPE
    tname, before_spec, after_spec, second = case["type"], case["before"], case["after"], case["second"]
    info = {"dead": False, "states": [], "transitions": 0}
    prs = Presentation()
    slide = prs.slides.add_slide(prs.slide_layouts[6])
    cd = S.build(before_spec)
    head = "%s: cd = %s" % (tname, _spec_brief(before_spec))
    ct = getattr(XL_CHART_TYPE, tname)

    def done(op, label):
        info["transitions"] += 1
        if part is not None:
            part.count("transitions")
            part.count("traces_validated_against_impl")
            part.outcome(op, label)

    try:
        chart = slide.shapes.add_chart(ct, 0, 0, 3000000, 2000000, cd).chart
    except Exception as e:  # noqa: BLE001
        done("add_chart", "raised:" + type(e).__name__)
        emit(_raise_sig("add_chart", e, 0, before_spec), "%s; add_chart(cd) raised %r" % (head, e))
        info["dead"] = True
        return info
    done("add_chart", "ok")
    root = _oracle_after_add(chart, tname, before_spec, emit, "%s; add_chart(cd)" % head)
    info["states"].append(hashlib.sha1(canon(root)).hexdigest()[:16])
    S.apply_delta(cd, before_spec, after_spec)
    step = "%s; add_chart(cd); cd grown by %s to %s; %s" % (head, case["mut"], _spec_brief(after_spec),
                                                            "chart.replace_data(cd)" if second == "replace_data" else "second add_chart(cd)")
    try:
        if second == "replace_data":
            before_root = part_root(chart)
            chart.replace_data(cd)
        else:
            chart = slide.shapes.add_chart(ct, 0, 0, 3000000, 2000000, cd).chart
    except Exception as e:  # noqa: BLE001
        done(second, "raised:" + type(e).__name__)
        emit(_raise_sig(second, e, S.series_count(before_spec), after_spec), "%s raised %r" % (step, e))
        info["dead"] = True
        return info
    done(second, "ok")
    if second == "replace_data":
        root = _oracle_after_replace(chart, before_root, tname, after_spec, emit, step)
    else:
        root = _oracle_after_add(chart, tname, after_spec, emit, step)
    info["states"].append(hashlib.sha1(canon(root)).hexdigest()[:16])
    return info


def _spec_brief(spec):
    s = dict(spec)
    if "tree" in s:
        s["tree"] = repr(s["tree"]).replace(" ", "")
    if "lens" in s and len(s["lens"]) > 8:
        s["lens"] = "%r...(%d)" % (s["lens"][:6], len(s["lens"]))
    return "{" + ", ".join("%s=%s" % (k, s[k]) for k in sorted(s)) + "}"


def _path_brief(specs):
    return "[" + "; ".join(_spec_brief(s) for s in specs) + "]" if specs else "no earlier replace_data"


# ---- exploration -------------------------------------------------------------------------------------------------------

_TYPES = []
_CREATION = {}
_HIST = {}
_XTRA = {}
_CORPUS = []


def _case_of(item):
    mode = item[0]
    if mode == "c":
        t = _TYPES[item[1]]
        return {"src": "gen", "type": t, "ops": [_CREATION[(S.kind_of(t), S.needs_series(t))][item[2]]], "plant": False}
    if mode == "h":
        t = _TYPES[item[1]]
        H = _HIST[S.kind_of(t)]
        return {"src": "gen", "type": t, "ops": [H[i] for i in item[2]], "plant": True}
    if mode == "x":
        t = _TYPES[item[1]]
        return {"src": "gen", "type": t, "ops": [S.replace_base(S.kind_of(t)), _XTRA[S.kind_of(t)][item[2]]], "plant": True}
    if mode == "r":
        t = _TYPES[item[1]]
        name, b, a = S.reuse_pairs(S.kind_of(t))[item[2]]
        return {"src": "reuse", "type": t, "mut": name, "before": b, "after": a, "second": REUSE_SECOND[item[3]]}
    if mode == "p":
        t = _TYPES[item[1]]
        a, b = perm_specs(S.kind_of(t), PERM_GROWTH[item[3]])
        return {"src": "genperm", "type": t, "perm": PERMS[item[2]], "ops": [a, b], "plant": True}
    deck, si, hi, tname = _CORPUS[item[1]]
    H = _HIST[S.kind_of(tname)]
    return {"src": "corpus", "deck": deck, "slide": si, "shape": hi, "ops": [H[i] for i in item[2]], "plant": True}


def _work(part, chunk):
    slides = Slides()
    for item in chunk:
        case = _case_of(item)

        def emit(sig, what, case=case):
            part.violation(sig, what, {"case": case, "sig": sig})
        if case["src"] == "reuse":
            info = exec_reuse(case, emit, part=part)
            part.count("paths")
            part.count("reused_chart_data_paths")
            for st in info["states"]:
                part.add("states", st)
            if info["dead"]:
                part.count("paths_ended_by_exception")
            part.count("nontrivial_count", info["transitions"])
            continue
        info = exec_case(case, emit, part=part, slides=slides)
        part.count("paths")
        if info["pruned"]:
            part.count("paths_pruned_after_plotless_error_state")
        elif info["unreachable"]:
            part.count("paths_unreachable_prefix_raised")
        elif info["dead"]:
            part.count("paths_ended_by_exception")
        if info["state"] is not None:
            part.add("states", info["state"])
        if info["nontrivial"]:
            part.count("nontrivial_count")
        if item[0] != "c" and hash_item(item) % 997 == 0:
            part.sample({"path": _case_brief(case)})


def hash_item(item):
    return int(hashlib.sha1(repr(item).encode()).hexdigest()[:8], 16)


def _case_brief(case):
    head = case["type"] if case["src"] != "corpus" else "%s#%d.%d" % (case["deck"], case["slide"], case["shape"])
    return {"chart": head, "ops": [_spec_brief(s) for s in case["ops"]]}


def _sequences(n_shapes, max_len):
    import itertools
    out = []
    for ln in range(1, max_len + 1):
        out.extend(itertools.product(range(n_shapes), repeat=ln))
    return out


def run(ctx):
    global _TYPES, _CORPUS
    from mc.oracles.xsd import SchemaSet
    SchemaSet.get(False)  # compiled once, inherited by the forked workers
    _TYPES = writable_types()
    if len(_TYPES) < 29:
        raise HarnessError("only %d writable chart types discovered (floor 29): %s" % (len(_TYPES), _TYPES))
    decks = all_corpus_decks()
    _CORPUS = corpus_charts(set(_TYPES), decks)
    used = {c[0] for c in _CORPUS}
    for deck in list(_DECK_BYTES):
        if deck not in used:
            del _DECK_BYTES[deck]  # keep only decks that hold charts in the forked workers
    if len(_CORPUS) < 80:
        raise HarnessError("only %d corpus charts found (floor 80)" % len(_CORPUS))
    if not any(_idx_order_irregular(c) for c in _CORPUS):
        raise HarnessError("no corpus chart with re-ordered series (c:idx sequence != c:order sequence) found")
    max_len = 3 if ctx.thorough else 2

    items = []
    expected_creation = 0
    for kind in ("cat", "xy", "bubble"):
        _HIST[kind] = S.history_shapes(kind)
        for need in (False, True):
            shapes, size = S.creation_shapes(kind, ctx.thorough, allow_zero=not need)
            if len(shapes) != size:
                raise HarnessError("creation generator for %s produced %d shapes, closed form %d" % (kind, len(shapes), size))
            _CREATION[(kind, need)] = shapes
    for ti, t in enumerate(_TYPES):
        key = (S.kind_of(t), S.needs_series(t))
        n = len(_CREATION[key])
        expected_creation += n
        items.extend(("c", ti, i) for i in range(n))
    seqs = _sequences(6, max_len)
    n_seq = sum(6 ** k for k in range(1, max_len + 1))
    if len(seqs) != n_seq:
        raise HarnessError("sequence generator size %d != %d" % (len(seqs), n_seq))
    expected_hist = 0
    for ti, t in enumerate(_TYPES):
        H = _HIST[S.kind_of(t)]
        initial = [i for i in range(6) if not (S.needs_series(t) and S.series_count(H[i]) == 0)]
        for a in initial:
            items.append(("h", ti, (a,)))
            items.extend(("h", ti, (a,) + q) for q in seqs)
        expected_hist += len(initial) * (1 + n_seq)
    for ci in range(len(_CORPUS)):
        items.extend(("k", ci, q) for q in seqs)
    expected_corpus = len(_CORPUS) * n_seq

    # generated charts whose series numbering is irregular (renumbered harness-side), then grown/shrunk
    fam_first = {}
    for ti, t in enumerate(_TYPES):
        if not S.needs_series(t):  # the pie writer keeps one series only
            fam_first.setdefault(S.family_of(t), ti)
    perm_types = [ti for ti, t in enumerate(_TYPES) if not S.needs_series(t)] if ctx.thorough else sorted(fam_first.values())
    for ti in perm_types:
        for pi in range(len(PERMS)):
            for gi in range(len(PERM_GROWTH)):
                items.append(("p", ti, pi, gi))
    expected_perm = len(perm_types) * len(PERMS) * len(PERM_GROWTH)

    # one chart-data object used twice with growth in between (one chart type per writer family)
    fam_any = {}
    for ti, t in enumerate(_TYPES):
        fam_any.setdefault(S.family_of(t), ti)
    expected_reuse = 0
    for ti in sorted(fam_any.values()):
        n_pairs = len(S.reuse_pairs(S.kind_of(_TYPES[ti])))
        for pi in range(n_pairs):
            for si in range(len(REUSE_SECOND)):
                items.append(("r", ti, pi, si))
        expected_reuse += n_pairs * len(REUSE_SECOND)

    # one replace_data with ragged data / wide numeric labels on a one-series chart of every category type
    expected_xtra = 0
    for kind in ("cat", "xy", "bubble"):
        shapes, size = S.replace_extra_shapes(kind, ctx.thorough)
        if len(shapes) != size:
            raise HarnessError("replace-extra generator for %s produced %d shapes, closed form %d" % (kind, len(shapes), size))
        _XTRA[kind] = shapes
    for ti, t in enumerate(_TYPES):
        n = len(_XTRA[S.kind_of(t)])
        items.extend(("x", ti, i) for i in range(n))
        expected_xtra += n
    if not expected_xtra:
        raise HarnessError("no ragged/wide-label replace_data paths enumerated")

    total = expected_creation + expected_hist + expected_corpus + expected_perm + expected_reuse + expected_xtra
    if len(items) != total:
        raise HarnessError("item list %d != closed form %d" % (len(items), total))
    fanout(ctx, _work, ctx.rotate(items))
    ctx.counters["states"] = len(ctx.sets.get("states", ()))

    ctx.extra["writable_chart_types"] = len(_TYPES)
    ctx.extra["corpus_charts"] = len(_CORPUS)
    ctx.extra["creation_inputs"] = expected_creation
    ctx.extra["generated_history_paths"] = expected_hist
    ctx.extra["corpus_history_paths"] = expected_corpus
    ctx.extra["corpus_decks_with_charts"] = len({c[0] for c in _CORPUS})
    ctx.extra["renumbered_series_paths"] = expected_perm
    ctx.extra["reused_chart_data_paths_enumerated"] = expected_reuse
    ctx.extra["ragged_and_wide_label_replace_paths"] = expected_xtra
    ctx.extra["ragged_shapes_per_category_type"] = S.ragged_shapes(ctx.thorough)[1]
    ctx.extra["history_length_bound"] = max_len
    ctx.sample({"chart": _TYPES[3], "ops": [_spec_brief(_CREATION[("cat", False)][100])]})
    if ctx.counters.get("paths", 0) != total:
        raise HarnessError("paths executed %d != enumerated %d" % (ctx.counters.get("paths", 0), total))
    unreach = ctx.counters.get("paths_unreachable_prefix_raised", 0) + ctx.counters.get("paths_pruned_after_plotless_error_state", 0)
    # a reused-chart-data path has two checked transitions (one per use of the object)
    if ctx.counters.get("transitions", 0) + unreach != total + expected_reuse:
        raise HarnessError("checked transitions %d + unreachable %d != enumerated paths %d + second uses %d" % (
            ctx.counters.get("transitions", 0), unreach, total, expected_reuse))


def replay(data):
    found = []

    def emit(sig, what):
        if sig == data["sig"]:
            found.append(what)
    if data["case"]["src"] == "reuse":
        exec_reuse(data["case"], emit)
    else:
        exec_case(data["case"], emit, check_all=True)
    return found[0] if found else None
