"""C19 — part-name arithmetic is exact.

Bounded-exhaustive enumeration (engine E2): every part name over a segment alphabet up to a depth,
every ordered pair (P, Q), every relative reference from a reference alphabet; reference model is
RFC 3986 5.2.4 remove_dot_segments and plain string functions (no posixpath).
"""

from __future__ import annotations

import itertools

from mc.core.parallel import fanout
from mc.core.run import HarnessError

LEVEL = "exploration"
RULE = ("all part names over the segment alphabet up to the depth bound (directories from the dir "
        "alphabet, leaf from the leaf alphabet) plus '/'; all ordered pairs (P,Q) for the "
        "relative_ref/from_rel_ref round trip; all (base, reference) pairs over a reference alphabet "
        "with '.', '..', './', root-absolute and climbing-past-root forms. Non-trivial = pairs whose "
        "directories differ (the reference is not just the file name), counted distinct by (P,Q); "
        "plus per-name attribute checks with a distinct expected tuple.")
ASSUMPTIONS = [
    "alphabet-bounded: segments outside the alphabet (percent-escapes, unicode, empty segments) are not explored",
    "reference model: RFC 3986 5.2.4 remove_dot_segments + OPC part-name definitions, hand-written in this file",
]

DIRS = ["a", "ab", "slides", "a.b", "_rels", "[x]"]
LEAVES = ["a", "ab", "slide1", "slide12.xml", "image007.png", "a.b", "x.tar.gz", "noext", "A.XML",
          "[x]", "presentation.xml",
          "image\uff12.png"]   # a full-width digit is not a digit of an array part name: no index


# ---- reference model ----------------------------------------------------------------------------

def remove_dot_segments(path: str) -> str:
    """RFC 3986 section 5.2.4, written out."""
    inp, out = path, []
    while inp:
        if inp.startswith("../"):
            inp = inp[3:]
        elif inp.startswith("./"):
            inp = inp[2:]
        elif inp.startswith("/./"):
            inp = inp[2:]
        elif inp == "/.":
            inp = "/"
        elif inp.startswith("/../"):
            inp = inp[3:]
            if out:
                out.pop()
        elif inp == "/..":
            inp = "/"
            if out:
                out.pop()
        elif inp in (".", ".."):
            inp = ""
        else:
            i = inp.find("/", 1) if inp.startswith("/") else inp.find("/")
            if i == -1:
                seg, inp = inp, ""
            else:
                seg, inp = inp[:i], inp[i:]
            out.append(seg)
    return "".join(out)


def ref_resolve(base_dir: str, ref: str) -> str:
    """Resolve `ref` against directory `base_dir` (no trailing slash unless root)."""
    if ref.startswith("/"):
        merged = ref
    else:
        merged = (base_dir if base_dir.endswith("/") else base_dir + "/") + ref
    r = remove_dot_segments(merged)
    # a part name has no trailing slash (except root itself)
    if len(r) > 1 and r.endswith("/"):
        r = r[:-1]
    return r or "/"


def ref_attrs(name: str):
    """(baseURI, filename, ext, idx, membername, rels_uri) by OPC definitions; plain string ops."""
    i = name.rfind("/")
    base = name[:i] or "/"
    filename = name[i + 1:]
    # extension: text after the last '.', provided the dot is not the leading character of the
    # file name (a leading-dot name such as '.rels' has no extension under splitext semantics)
    j = filename.rfind(".")
    stem, ext = (filename[:j], filename[j + 1:]) if j > 0 else (filename, "")
    # idx: the stem is letters followed by digits (array part name); digits give the index
    k = 0
    while k < len(stem) and stem[k].isascii() and stem[k].isalpha():
        k += 1
    d = k
    while d < len(stem) and stem[d] in "0123456789":
        d += 1
    idx = int(stem[k:d]) if (k > 0 and d > k) else None
    member = name[1:]
    rels = ("/_rels/" if base == "/" else base + "/_rels/") + filename + ".rels"
    return (base, filename, ext, idx, member, rels)


# ---- space ----------------------------------------------------------------------------------------

def names(depth):
    out = []
    for d in range(0, depth):
        for dirs in itertools.product(DIRS, repeat=d):
            for leaf in LEAVES:
                out.append("/" + "/".join(dirs + (leaf,)))
    return out


REFS = ["x.xml", "./x.xml", "../x.xml", "../../x.xml", "../../../../x.xml", "a/../x.xml", "a/./b/x.xml",
        "/x.xml", "/a/b/x.xml", "/a/../x.xml", "./../x.xml", "a/b/../../x.xml", "../a/x.xml", "b/x.xml"]


def _check_pairs(part, chunk):
    from pptx.opc.packuri import PackURI
    ALL = _ALL
    for pi in chunk:
        P = ALL[pi]
        pu = PackURI(P)
        pbase = pu.baseURI
        for Q in ALL:
            part.count("evaluations")
            try:
                rel = PackURI(Q).relative_ref(pbase)
                back = PackURI.from_rel_ref(pbase, rel)
            except Exception as e:  # noqa
                part.violation("C19|roundtrip|raised|%s" % type(e).__name__,
                               "relative_ref/from_rel_ref raised %r for P=%s Q=%s" % (e, P, Q),
                               {"kind": "pair", "P": P, "Q": Q})
                continue
            if str(back) != Q:
                part.violation("C19|roundtrip|P=%s|Q=%s" % (P, Q),
                               "from_rel_ref(%r, %r) = %r, expected %r" % (pbase, rel, str(back), Q),
                               {"kind": "pair", "P": P, "Q": Q})
            # the reference model agrees that rel resolves to Q (binds model to implementation)
            if ref_resolve(pbase, rel) != Q:
                part.violation("C19|relref-not-rfc|P=%s|Q=%s" % (P, Q),
                               "relative_ref %r from %r does not resolve to %r under RFC 3986" % (rel, pbase, Q),
                               {"kind": "pair", "P": P, "Q": Q})
            if ref_attrs(Q)[0] != pbase:
                part.count("nontrivial_count")  # pairs are enumerated once each: distinct by construction
        if pi % 97 == 0:
            part.sample({"P": P, "Q": ALL[(pi * 7) % len(ALL)],
                         "rel": PackURI(ALL[(pi * 7) % len(ALL)]).relative_ref(pbase)})


_ALL = []


def _pair_failure(P, Q):
    from pptx.opc.packuri import PackURI
    pbase = PackURI(P).baseURI
    try:
        rel = PackURI(Q).relative_ref(pbase)
        back = PackURI.from_rel_ref(pbase, rel)
    except Exception as e:
        return "raised %r" % (e,)
    if str(back) != Q:
        return "from_rel_ref(%r, %r) = %r != %r" % (pbase, rel, str(back), Q)
    if ref_resolve(pbase, rel) != Q:
        return "relative_ref %r from %r does not resolve to %r" % (rel, pbase, Q)
    return None


def _attr_failure(name):
    from pptx.opc.packuri import PackURI
    exp = ref_attrs(name)
    try:
        u = PackURI(name)
        got = (u.baseURI, u.filename, u.ext, u.idx, u.membername, str(u.rels_uri))
    except Exception as e:
        return "raised %r" % (e,)
    if got != exp:
        labels = ("baseURI", "filename", "ext", "idx", "membername", "rels_uri")
        diffs = ["%s: got %r expected %r" % (l, g, e) for l, g, e in zip(labels, got, exp) if g != e]
        return "; ".join(diffs)
    return None


def _ref_failure(base, ref):
    from pptx.opc.packuri import PackURI
    exp = ref_resolve(base, ref)
    try:
        got = str(PackURI.from_rel_ref(base, ref))
    except Exception as e:
        return "raised %r" % (e,)
    if got != exp:
        return "from_rel_ref(%r, %r) = %r, RFC 3986 gives %r" % (base, ref, got, exp)
    return None


def _reject_failure(s):
    from pptx.opc.packuri import PackURI
    try:
        PackURI(s)
    except Exception:
        return None
    return "PackURI(%r) accepted" % (s,)


def run(ctx):
    global _ALL
    depth = 4 if ctx.thorough else 3
    _ALL = ctx.rotate(names(depth))
    n = len(_ALL)
    exp_n = sum(len(DIRS) ** d * len(LEAVES) for d in range(depth))
    if n != exp_n:
        raise HarnessError("generator size %d != closed form %d" % (n, exp_n))

    from pptx.opc.packuri import PackURI

    # 1. per-name attributes (all names incl. deepest tier, plus '/')
    attr_names = ["/"] + (names(depth + 1) if not ctx.thorough else names(depth))
    seen_exp = set()
    for nm in attr_names:
        ctx.count("evaluations")
        ctx.count("attr_checks")
        if nm == "/":
            u = PackURI("/")
            got = (u.baseURI, u.filename, u.membername, str(u.rels_uri), u.idx)
            if got != ("/", "", "", "/_rels/.rels", None):
                ctx.violation("C19|attrs|/", "package pseudo-name attributes %r" % (got,), {"kind": "attr", "name": "/"})
            continue
        msg = _attr_failure(nm)
        if msg:
            leaf = nm.rsplit("/", 1)[1]
            ctx.violation("C19|attrs|leaf=%s|depth=%d" % (leaf, nm.count("/")), "%s: %s" % (nm, msg), {"kind": "attr", "name": nm})
        e = ref_attrs(nm)
        if e not in seen_exp:
            seen_exp.add(e)
            ctx.add("nontrivial", ("attr", nm))
    ctx.sample({"name": attr_names[5], "expected(baseURI,filename,ext,idx,membername,rels_uri)": ref_attrs(attr_names[5])})

    # 2. all ordered pairs
    pair_names = _ALL
    fanout(ctx, _check_pairs, range(len(pair_names)))
    ctx.extra["part_names"] = n
    ctx.extra["ordered_pairs"] = n * n

    # 3. dotted references against every base directory
    bases = sorted({ref_attrs(x)[0] for x in _ALL})
    for b in bases:
        for r in REFS:
            ctx.count("evaluations")
            ctx.count("ref_checks")
            msg = _ref_failure(b, r)
            if msg:
                ctx.violation("C19|resolve|ref=%s|basedepth=%d" % (r, 0 if b == "/" else b.count("/")), msg, {"kind": "ref", "base": b, "ref": r})
            ctx.add("nontrivial", ("ref", b, r))
    ctx.sample({"base": bases[-1], "ref": REFS[3], "expected": ref_resolve(bases[-1], REFS[3])})

    # 4. names that do not start with '/' are rejected
    for s in ["a", "a/b.xml", "ppt/slides/slide1.xml", "./a", "../a", " /a", "\\a", "", "a/"]:
        ctx.count("evaluations")
        msg = _reject_failure(s)
        if msg:
            ctx.violation("C19|reject|%r" % s, msg, {"kind": "reject", "s": s})

    if ctx.counters["evaluations"] < n * n:
        raise HarnessError("evaluations %d < pairs %d" % (ctx.counters["evaluations"], n * n))


def replay(data):
    k = data["kind"]
    if k == "pair":
        return _pair_failure(data["P"], data["Q"])
    if k == "attr":
        if data["name"] == "/":
            from pptx.opc.packuri import PackURI
            u = PackURI("/")
            got = (u.baseURI, u.filename, u.membername, str(u.rels_uri), u.idx)
            return None if got == ("/", "", "", "/_rels/.rels", None) else repr(got)
        return _attr_failure(data["name"])
    if k == "ref":
        return _ref_failure(data["base"], data["ref"])
    if k == "reject":
        return _reject_failure(data["s"])
    raise ValueError(k)
