"""C13 helpers: bare-lxml placeholder reader, the expected-placeholder model and the per-slide oracle.

Nothing in the *expected* side uses python-pptx: layouts, masters, slides and notes parts are read from
serialised XML (zip members or `part.blob`) with plain lxml and the defaults of CT_Placeholder in pml.xsd
(type 'obj', idx 0, orient 'horz', sz 'full').
"""

from __future__ import annotations

import hashlib

from lxml import etree

NS_P = "http://schemas.openxmlformats.org/presentationml/2006/main"
NS_A = "http://schemas.openxmlformats.org/drawingml/2006/main"
NS_R = "http://schemas.openxmlformats.org/officeDocument/2006/relationships"
NS = {"p": NS_P, "a": NS_A, "r": NS_R}
RT = "http://schemas.openxmlformats.org/officeDocument/2006/relationships/"

_parser = etree.XMLParser(resolve_entities=False, remove_blank_text=False)

LATENT = ("dt", "ftr", "sldNum")
NOTES_CLONED = ("sldImg", "body", "sldNum")
GEO = ("left", "top", "width", "height")

# ST_PlaceholderType token -> name of the PP_PLACEHOLDER member the documentation assigns to it
TOKEN2NAME = {
    "title": "TITLE", "body": "BODY", "ctrTitle": "CENTER_TITLE", "subTitle": "SUBTITLE", "dt": "DATE",
    "sldNum": "SLIDE_NUMBER", "ftr": "FOOTER", "hdr": "HEADER", "obj": "OBJECT", "chart": "CHART",
    "tbl": "TABLE", "clipArt": "BITMAP", "dgm": "ORG_CHART", "media": "MEDIA_CLIP", "sldImg": "SLIDE_IMAGE",
    "pic": "PICTURE",
}


def base_type(t):
    """The standard's inheritance rule layout placeholder -> master placeholder type."""
    if t in ("title", "ctrTitle"):
        return "title"
    if t in LATENT:
        return t
    return "body"


def c14n_sha(blob):
    root = etree.fromstring(blob, _parser)
    return hashlib.sha1(etree.tostring(root, method="c14n", with_comments=False)).hexdigest()


def _int(v):
    return None if v is None else int(v)


def read_phs(blob):
    """Placeholder shapes of a slide / layout / master / notes part, document order. Bare lxml."""
    root = etree.fromstring(blob, _parser)
    tree = root.find("p:cSld/p:spTree", NS)
    out = []
    if tree is None:
        return out
    for el in tree:
        if not isinstance(el.tag, str):
            continue
        q = etree.QName(el)
        if q.namespace != NS_P or q.localname not in ("sp", "pic", "graphicFrame"):
            continue
        if len(el) == 0:
            continue
        nv = el[0]
        ph = nv.find("p:nvPr/p:ph", NS)
        if ph is None:
            continue
        cNvPr = nv.find("p:cNvPr", NS)
        xfrm = el.find("p:xfrm", NS) if q.localname == "graphicFrame" else el.find("p:spPr/a:xfrm", NS)
        geo = [None, None, None, None]
        if xfrm is not None:
            off, ext = xfrm.find("a:off", NS), xfrm.find("a:ext", NS)
            if off is not None:
                geo[0], geo[1] = _int(off.get("x")), _int(off.get("y"))
            if ext is not None:
                geo[2], geo[3] = _int(ext.get("cx")), _int(ext.get("cy"))
        out.append({
            "tag": q.localname,
            "type": ph.get("type", "obj"),
            "idx": int(ph.get("idx", "0")),
            "orient": ph.get("orient", "horz"),
            "sz": ph.get("sz", "full"),
            "has_xfrm": xfrm is not None,
            "geo": tuple(geo),
            "name": cNvPr.get("name") if cNvPr is not None else None,
            "id": cNvPr.get("id") if cNvPr is not None else None,
            "has_txBody": el.find("p:txBody", NS) is not None,
        })
    return out


def key4(ph):
    return (ph["type"], ph["idx"], ph["orient"], ph["sz"])


class LayoutExp:
    """Expected mirror of one layout: every placeholder of the layout with its effective geometry (own
    xfrm value per attribute, else that of the first master placeholder of the base type, else None) and the
    indices of the non-latent ones."""

    def __init__(self, layout_blob, master_blob):
        self.phs = read_phs(layout_blob)
        mphs = read_phs(master_blob) if master_blob is not None else []
        self.master_phs = mphs
        self.eff = []
        for ph in self.phs:
            bt = base_type(ph["type"])
            m = next((x for x in mphs if x["type"] == bt), None)
            mg = m["geo"] if m is not None else (None, None, None, None)
            self.eff.append(tuple(ph["geo"][i] if ph["geo"][i] is not None else mg[i] for i in range(4)))
        self.clone = [i for i, ph in enumerate(self.phs) if ph["type"] not in LATENT]

    def alt_eff(self, i):
        """Other defensible readings of the effective geometry of layout placeholder i: for the two types that
        exist only on notes/handout masters (hdr, sldImg) the same-type master placeholder instead of body."""
        ph = self.phs[i]
        out = [self.eff[i]]
        if ph["type"] in ("hdr", "sldImg"):
            m = next((x for x in self.master_phs if x["type"] == ph["type"]), None)
            mg = m["geo"] if m is not None else (None, None, None, None)
            out.append(tuple(ph["geo"][k] if ph["geo"][k] is not None else mg[k] for k in range(4)))
        return out

    def same_idx(self, i):
        idx = self.phs[i]["idx"]
        return [j for j, p in enumerate(self.phs) if p["idx"] == idx]


def layout_exp_from_members(members, layout_partname):
    """Build LayoutExp from zip members: the layout's master is found through the layout's .rels (bare)."""
    from mc.oracles import opc_ref
    relm = opc_ref.rels_member_for(layout_partname)
    master_blob = None
    if relm in members:
        root = etree.fromstring(members[relm], _parser)
        for el in root:
            if isinstance(el.tag, str) and el.get("Type") == RT + "slideMaster" and el.get("TargetMode") != "External":
                mpn = opc_ref.resolve(layout_partname, el.get("Target"))
                master_blob = members.get(mpn[1:])
                break
    return LayoutExp(members[layout_partname[1:]], master_blob)


class Failure:
    __slots__ = ("rule", "attrs", "detail", "pos")

    def __init__(self, rule, attrs, detail, pos=None):
        self.rule, self.attrs, self.detail, self.pos = rule, attrs, detail, pos

    def sig(self):
        return "C13|" + self.rule + "".join("|%s=%s" % kv for kv in self.attrs)

    def key(self):
        return (self.rule, tuple(self.attrs))


def _xf(ph):
    return "present" if ph["has_xfrm"] else "absent"


def _type_name(shape):
    try:
        t = shape.placeholder_format.type
    except Exception as e:  # noqa: BLE001
        return "raised:" + type(e).__name__
    return getattr(t, "name", repr(t))


def read_geo(shape):
    """(tuple of 4 ints/None, None) or (None, exception)."""
    out = []
    try:
        for a in GEO:
            v = getattr(shape, a)
            out.append(None if v is None else int(v))
    except Exception as e:  # noqa: BLE001
        return None, e
    return tuple(out), None


def check_mirror(slide, layout, exp, overrides=None, cloned=None):
    """The per-slide oracle: slide (live python-pptx object) against LayoutExp. `overrides`: {position in the
    slide's placeholder list: {attr: value}} set by the history. Returns [Failure]."""
    fails = []
    overrides = overrides or {}
    want = [exp.phs[i] for i in exp.clone]
    got = read_phs(slide.part.blob)
    # -- one-for-one, same (type, idx, orient, sz), same order (document order of the slide's shape tree)
    if len(got) != len(want):
        wk, gk = [key4(p) for p in want], [key4(p) for p in got]
        missing = [k for k in wk if k not in gk]
        extra = [k for k in gk if k not in wk]
        fails.append(Failure("mirror-count", [("missing", ",".join(sorted({k[0] for k in missing})) or "-"),
                                              ("extra", ",".join(sorted({k[0] for k in extra})) or "-")],
                             "layout has %d non-latent placeholders %r, slide has %d %r" % (len(want), wk, len(got), gk)))
        return fails
    fields = ("type", "idx", "orient", "sz")
    for k, (w, g) in enumerate(zip(want, got)):
        for f in fields:
            if w[f] != g[f]:
                fails.append(Failure("mirror", [("type", w["type"]), ("field", f), ("expected", w[f]), ("got", g[f])],
                                     "placeholder %d: layout %r, slide %r" % (k, key4(w), key4(g))))
    # -- the public API shows the same placeholders
    try:
        api = [sh for sh in slide.shapes if sh.is_placeholder]
        coll = list(slide.placeholders)
    except Exception as e:  # noqa: BLE001
        fails.append(Failure("placeholders-raised", [("exc", type(e).__name__)], "reading slide placeholders: %r" % (e,)))
        return fails
    if len(api) != len(want) or len(coll) != len(want):
        fails.append(Failure("mirror-api-count", [], "slide.shapes shows %d placeholders, slide.placeholders %d, expected %d"
                             % (len(api), len(coll), len(want))))
        return fails
    for k, (w, sh) in enumerate(zip(want, api)):
        tn = _type_name(sh)
        try:
            ix = sh.placeholder_format.idx
        except Exception as e:  # noqa: BLE001
            ix = "raised:" + type(e).__name__
        if tn != TOKEN2NAME[w["type"]] or ix != w["idx"]:
            fails.append(Failure("mirror-api", [("type", w["type"]), ("got", tn)],
                                 "placeholder %d: placeholder_format (%s, %s), layout has (%s, %s)" % (k, tn, ix, w["type"], w["idx"])))
    if sorted((_type_name(s), s.placeholder_format.idx) for s in coll) != sorted((TOKEN2NAME[w["type"]], w["idx"]) for w in want):
        fails.append(Failure("mirror-api-collection", [], "slide.placeholders differs from the layout's non-latent placeholders"))
    # -- uniquely named
    names = [g["name"] for g in got]
    api_names = [sh.name for sh in api]
    if names != api_names:
        fails.append(Failure("names-api", [], "shape.name %r vs XML %r" % (api_names, names)))
    if len(set(names)) != len(names) or any(not n for n in names):
        dup = sorted({n for n in names if names.count(n) > 1 or not n})
        fails.append(Failure("names", [("dup", ",".join(_strip_digits(n or "(empty)") for n in dup))],
                             "placeholder names not pairwise distinct: %r" % (names,)))
    # -- geometry
    try:
        lphs = list(layout.placeholders)
    except Exception as e:  # noqa: BLE001
        lphs = None
        fails.append(Failure("layout-placeholders-raised", [("exc", type(e).__name__)], repr(e)))
    for k, (li, sh) in enumerate(zip(exp.clone, api)):
        w = exp.phs[li]
        group = exp.same_idx(li)
        ambiguous = len(group) > 1
        g, exc = read_geo(sh)
        attrs_id = [("type", w["type"]), ("xfrm", _xf(w))]
        if exc is not None:
            fails.append(Failure("geometry-raised", attrs_id + [("exc", type(exc).__name__)],
                                 "placeholder %d %r: reading left/top/width/height raised %r" % (k, key4(w), exc), pos=li))
            continue
        ov = overrides.get(k, {})
        accept = []
        for j in (group if ambiguous else [li]):
            for e in exp.alt_eff(j):
                accept.append(tuple(ov.get(a, e[i]) for i, a in enumerate(GEO)))
        if g not in accept:
            fails.append(Failure("geometry", attrs_id + [("master", "has" if _master_has(exp, w) else "lacks"),
                                                       ("wrong", ",".join(a for i, a in enumerate(GEO) if g[i] != accept[0][i]))],
                                 "placeholder %d %r reads %r, layout counterpart gives %r (own xfrm %r)%s"
                                 % (k, key4(w), g, accept[0], w["geo"], " [idx shared by %d layout placeholders]" % len(group) if ambiguous else "")))
        # differential: what the library itself reads for the layout counterpart
        if lphs is not None and len(lphs) == len(exp.phs) and not ov:
            lg, lexc = read_geo(lphs[li])
            if lexc is not None:
                fails.append(Failure("layout-geometry-raised", attrs_id + [("exc", type(lexc).__name__)],
                                     "layout placeholder %r: reading geometry raised %r" % (key4(w), lexc), pos=li))
            elif not ambiguous and lg != g:
                fails.append(Failure("geometry-differential", attrs_id, "slide placeholder %d reads %r, library reads %r for its layout counterpart" % (k, g, lg)))
    return fails


def _master_has(exp, w):
    bt = base_type(w["type"])
    return any(x["type"] == bt for x in exp.master_phs)


def _strip_digits(s):
    return "".join(c for c in s if not c.isdigit()).strip()


def slides_snapshot(prs):
    """[(slide_id, partname-independent digest of the slide XML)] in presentation order."""
    return [(s.slide_id, c14n_sha(s.part.blob)) for s in prs.slides]


def check_position(prs, slide, layout, before, out_after=None):
    """The new slide is last, related to `layout`, and every other slide is unchanged. `before` is
    slides_snapshot(prs) taken before the addition."""
    fails = []
    try:
        after = slides_snapshot(prs)
    except Exception as e:  # noqa: BLE001
        return [Failure("slides-raised", [("exc", type(e).__name__)], "iterating prs.slides after add_slide raised %r" % (e,))]
    if out_after is not None:
        out_after[:] = after
    if len(after) != len(before) + 1:
        fails.append(Failure("slide-count", [], "len(prs.slides) %d -> %d" % (len(before), len(after))))
        return fails
    last = prs.slides[len(after) - 1]
    if last.slide_id != slide.slide_id or str(last.part.partname) != str(slide.part.partname):
        fails.append(Failure("not-last", [], "added slide %s (id %s) is not the last slide (%s)"
                             % (slide.part.partname, slide.slide_id, last.part.partname)))
    if prs.slides.index(slide) != len(after) - 1:
        fails.append(Failure("not-last", [], "prs.slides.index(new slide) = %d of %d" % (prs.slides.index(slide), len(after))))
    if after[:-1] != before:
        changed = [b[0] for a, b in zip(after, before) if a != b]
        fails.append(Failure("other-slide-changed", [], "slides %r changed by add_slide" % (changed,)))
    if len({i for i, _ in after}) != len(after):
        fails.append(Failure("slide-id-dup", [], "slide ids %r" % ([i for i, _ in after],)))
    try:
        lpn = str(slide.slide_layout.part.partname)
    except Exception as e:  # noqa: BLE001
        lpn = "raised %r" % (e,)
    if lpn != str(layout.part.partname):
        fails.append(Failure("layout-rel", [], "slide.slide_layout is %s, added from %s" % (lpn, layout.part.partname)))
    return fails


def saved_slide_layout(members, slide_partname):
    """Layout part name a slide part is related to in a saved package (bare)."""
    from mc.oracles import opc_ref
    relm = opc_ref.rels_member_for(slide_partname)
    if relm not in members:
        return None
    root = etree.fromstring(members[relm], _parser)
    for el in root:
        if isinstance(el.tag, str) and el.get("Type") == RT + "slideLayout":
            return opc_ref.resolve(slide_partname, el.get("Target"))
    return None


def saved_slide_order(members):
    """Slide part names in presentation order read from a saved package (bare)."""
    from mc.oracles import opc_ref
    pres = "/ppt/presentation.xml"
    root = etree.fromstring(members[pres[1:]], _parser)
    rels = {}
    rr = etree.fromstring(members[opc_ref.rels_member_for(pres)], _parser)
    for el in rr:
        if isinstance(el.tag, str):
            rels[el.get("Id")] = (el.get("Type"), opc_ref.resolve(pres, el.get("Target")) if el.get("TargetMode") != "External" else None)
    out = []
    lst = root.find("p:sldIdLst", NS)
    if lst is not None:
        for s in lst:
            if isinstance(s.tag, str):
                out.append(rels.get(s.get("{%s}id" % NS_R), (None, None))[1])
    related = sorted(t for ty, t in rels.values() if ty == RT + "slide")
    return out, related


def mark_after(fails, seen_keys, stage):
    """Keep failures not already reported in memory; tag them with the stage."""
    out = []
    for f in fails:
        if f.key() in seen_keys:
            continue
        f.attrs = list(f.attrs) + [("after", stage)]
        out.append(f)
    return out
