"""C10 — a child is inserted where the schema allows it, whatever siblings exist.

Bounded-exhaustive enumeration (engine E2) over

    registered element tag  x  candidate XSD complex type T of that tag  x  child mutator of the
    element class  x  sibling context derived from T's particle tree

Discovery. Element classes: the lxml namespace class registry of `pptx.oxml` (local names are bytes)
united with a behavioural probe (every element name of the XSDs is fed to `pptx.oxml.parse_xml` and the
class of the parsed element is taken), so the check survives a relocation of the registry. Mutators: by
the generated method names `_insert_x`, `_add_x`, `get_or_add_x`, `get_or_change_to_x`, `_remove_x`,
`add_x` (hand-written overrides included). What a mutator does is learned by DIFFING the parent's direct
children before/after the call; closures (`_nsptagname`, `_member_nsptagnames`) are only a hint for
choosing contexts and a cross-check for removers. Mutators that need arguments get them from a small
table keyed by parameter name; a mutator with a parameter the table does not know is skipped and counted.

Contexts (pure function of T, the child kind c and the tier; see c10_model.Model.contexts): empty; every
single kind (including c itself); every "one child of every particle" skeleton (each exclusive choice
contributing each member in turn), with c, without c, only the schema-later and only the schema-earlier
part; EVERY ordered pair of kinds of T (with repetition) for every type, not only repeatable ones;
thorough tier: every ordered triple for types with repeatable content and <= 12 kinds. Parents are built
as XML text and parsed with the library's own parser, children empty (c:dLbl / c:dPt get a c:idx so the
hand-written idx-ordered inserters can run; p:childTnLst is nested in a p:sld/p:timing document because
add_video reads the cTn ids of the whole slide).

Oracle (c10_model.Model.valid): the sequence of direct-child TAGS of the parent must validate, as type T,
against the relaxed schema (minOccurs=0 everywhere, attributes optional), before (else the context is
discarded and counted) and after the call. Only the tag sequence of direct children is judged (bare copy,
empty children), so attribute values or grandchildren written by hand-written adders cannot raise an
alarm: the statement is about the POSITION of the child. A post-state that is invalid is reported only if
some placement of the added child(ren) among the surviving siblings WOULD have been valid (otherwise the
context does not admit the child at all - e.g. a second member of an exclusive choice - and the case is
discarded and counted). `get_or_add_x` is called twice: the first call adds at most one direct child, the
second none. `_remove_x` leaves no child of the removed kind(s). `get_or_change_to_x` leaves exactly one
member of the choice group (members the class removes, united with the members of the enclosing
non-repeatable xsd:choice).

Property setters. Element classes also add / replace children through hand-written `@x.setter` properties
(line_spacing, space_before/after, x/y/cx/cy, rot, flipH/V, autofit, anchor, srcRect_*, has_legend, orientation,
maximum/minimum, horz_offset, text, core-property *_text/_datetime ...). Every property with a setter defined on a
registered element class that is not an xmlchemy attribute declaration is driven with each value of a small table
it accepts (None, bool, int, Emu, Pt, float, str, datetime, named strings, and the members of the enum class its
GETTER returns): on the empty parent, on every single-sibling parent, and - history - after a previous assignment
of every accepted value (same and different kind); thorough tier also on every single sibling holding one
schema-permitted grandchild. Judged: pre-valid -> post-valid, by the direct-child order oracle and by deep validation
of the parent against the relaxed schema (structural errors only: an attribute value can never alarm). When the
children a value needs cannot coexist with what the PREVIOUS assignment left, and the same assignment on the fresh
parent is fine, that is reported too ('change to' leaves one member). Setters that raise are not judged.

Deviations from DESIGN.md section 4/C10: (1) the parent is validated as a probe global element of type T
(`{ns}__CT_X`) instead of inside an ancestor chain; (2) only direct-child order is judged (see above);
(3) ordered pairs are enumerated for all types (superset of the design); (4) mutators that raise in a
context (hand-written ones needing required children) are not judged there: C10 says where a child goes,
not that every call succeeds.
"""

from __future__ import annotations

import inspect
import re
import zlib

from mc.core.parallel import fanout
from mc.core.run import HarnessError
from mc.props.c10_model import NS_CP, NS_CT, NS_PR, Model, local, ptag, split
from mc.oracles import xsd as X

LEVEL = "exploration"
RULE = ("every registered element tag x every XSD complex type of that tag x every child mutator of its "
        "class (_insert_/_add_/get_or_add_/get_or_change_to_/_remove_/add_) x every sibling context from "
        "the type's particle tree (empty; each single kind; one-child-of-every-particle skeletons with/"
        "without the child, later-only, earlier-only; all ordered pairs of kinds; thorough: ordered triples "
        "for repeatable content). A case is counted non-trivial when the context is non-empty, valid under "
        "the relaxed schema, and the call changed the parent's direct-child sequence; cases are distinct by "
        "construction (tag, type, mutator, context). Plus every hand-written property setter of an element class "
        "x accepted table value x (empty | single sibling) x (no history | previous assignment of each accepted "
        "value); non-trivial there = the assignment changed the subtree and a sibling or a history was present.")
ASSUMPTIONS = [
    "order oracle = libxml2 on the relaxed ISO/IEC 29500-4 transitional + OPC XSDs shipped in /repo/spec "
    "(probe global element per complex type); siblings are empty elements, xsd:any siblings are not generated",
    "contexts bounded: singles, skeletons, all ordered pairs (thorough: triples for repeatable types with <= 12 kinds)",
    "only the direct-child tag sequence of the modified parent is judged (subtrees are C03's business)",
    "mutators are discovered by method name; hand-written adders get arguments from a table keyed by parameter name",
    "property setters are driven with a fixed value table (None/bool/int/Emu/Pt/float/str/datetime/enum members of the "
    "getter's enum); history depth 2 (one previous assignment); deep validation reports structural errors only",
]

FLOOR_CLASSES = 150
FLOOR_MUTATORS = 250

_PAT = re.compile(r"^(_insert_|_add_|get_or_add_|get_or_change_to_|_remove_|add_)(.+)$")

C = X.NS_C
CHILD_XML = {
    "{%s}dLbl" % C: '<c:dLbl xmlns:c="%s"><c:idx val="1"/></c:dLbl>' % C,
    "{%s}dPt" % C: '<c:dPt xmlns:c="%s"><c:idx val="1"/></c:dPt>' % C,
}


# document context some hand-written adders look at (CT_TimeNodeList.add_video reads /p:sld/p:timing//p:cTn/@id)
P = X.NS_P
WRAP = {
    "{%s}childTnLst" % P: ('<p:sld xmlns:p="%s"><p:timing><p:tnLst><p:par><p:cTn id="1">' % P,
                           "</p:cTn></p:par></p:tnLst></p:timing></p:sld>"),
}


# ---- argument table (by parameter name) -------------------------------------------------------------

def _arg_values():
    from pptx.enum.shapes import MSO_CONNECTOR_TYPE, PP_PLACEHOLDER
    from pptx.opc.packuri import PackURI
    return {
        "rId": ["rId1"], "id_": [42], "name": ["nm"], "desc": ["d"], "x": [1], "y": [2], "cx": [3], "cy": [4],
        "w": [10], "h": [10], "width": [10], "height": [10], "value": [0.5], "idx": [0, 2], "text": ["t"],
        "prst": ["rect"], "shape_id": [7], "rows": [1], "cols": [1], "ext": ["xml"],
        "content_type": ["application/xml"], "partname": [PackURI("/ppt/x.xml")], "reltype": ["http://x/rt"],
        "target": ["t.xml"], "flipH": [False], "flipV": [False], "type_member": [MSO_CONNECTOR_TYPE.STRAIGHT],
        "ph_type": [PP_PLACEHOLDER.BODY], "orient": ["horz"], "sz": ["full"],
    }


def _required_params(fn):
    try:
        sig = inspect.signature(fn)
    except (TypeError, ValueError):
        return None
    out = []
    for i, (name, p) in enumerate(sig.parameters.items()):
        if i == 0 and name in ("self", "obj"):
            continue
        if p.kind in (p.VAR_POSITIONAL, p.VAR_KEYWORD):
            continue
        if p.default is p.empty:
            out.append(name)
    return out


# ---- discovery ----------------------------------------------------------------------------------------

def discover_classes(model):
    """clark tag -> element class, from the registry united with a parse probe of every XSD element name."""
    import pptx.opc.oxml  # noqa: F401  (registers the OPC classes)
    import pptx.oxml as ox
    import pptx.oxml.coreprops  # noqa: F401

    found = {}
    uris = set()
    for idx in (model.index, model.opc_index):
        for clark in idx.tag_types:
            uris.add(split(clark)[0])
    try:
        from pptx.oxml.ns import _nsmap
        uris.update(_nsmap.values())
    except Exception:
        pass
    uris.update((NS_CT, NS_PR, NS_CP))
    via_registry = 0
    try:
        lookup = ox.element_class_lookup
        for uri in sorted(u for u in uris if u):
            for k, v in lookup.get_namespace(uri).items():
                if k is None:
                    continue
                name = k.decode() if isinstance(k, bytes) else k
                found["{%s}%s" % (uri, name)] = v
                via_registry += 1
    except Exception:
        pass
    via_probe = 0
    for idx in (model.index, model.opc_index):
        for clark in sorted(idx.tag_types):
            if clark in found:
                continue
            ns, name = split(clark)
            if not ns:
                continue
            try:
                el = ox.parse_xml('<x:%s xmlns:x="%s"/>' % (name, ns))
            except Exception:
                continue
            cls = type(el)
            if cls.__module__.startswith("pptx."):
                found[clark] = cls
                via_probe += 1
    return found, via_registry, via_probe


def discover_mutators(cls):
    """[(method name, prefix, prop, [arg variants]) ...]; arg variant = (label, kwargs) or None if uncallable."""
    out, skipped = [], []
    table = _arg_values()
    for name in sorted(dir(cls)):
        mm = _PAT.match(name)
        if not mm:
            continue
        fn = getattr(cls, name, None)
        if not callable(fn):
            continue
        prefix, prop = mm.group(1), mm.group(2)
        req = _required_params(fn)
        if req is None:
            skipped.append(name)
            continue
        if prefix == "_insert_" and len(req) == 1 and callable(getattr(cls, "_new_" + prop, None)):
            out.append((name, prefix, prop, [("", None)]))
            continue
        if not req:
            out.append((name, prefix, prop, [("", {})]))
            continue
        if any(r not in table for r in req):
            skipped.append(name)
            continue
        variants = [("", {})]
        for r in req:
            nxt = []
            for lab, kw in variants:
                for vi, v in enumerate(table[r]):
                    kw2 = dict(kw)
                    kw2[r] = (r, vi)
                    lab2 = lab + ("," if lab else "") + "%s=%s" % (r, v) if len(table[r]) > 1 else lab
                    nxt.append((lab2, kw2))
            variants = nxt
        out.append((name, prefix, prop, variants))
    return out, skipped


# ---- one case on the implementation ----------------------------------------------------------------------

def _build(tag, ctx):
    from pptx.oxml import parse_xml
    ns, name = split(tag)
    wrap = WRAP.get(tag)
    parts = [wrap[0]] if wrap else []
    parts.append('<x:%s xmlns:x="%s">' % (name, ns))
    for k in ctx:
        tpl = CHILD_XML.get(k)
        if tpl:
            parts.append(tpl)
        else:
            kns, kname = split(k)
            parts.append('<y:%s xmlns:y="%s"/>' % (kname, kns))
    parts.append("</x:%s>" % name)
    if wrap:
        parts.append(wrap[1])
        root = parse_xml("".join(parts))
        return next(root.iter(tag))
    return parse_xml("".join(parts))


def _kids(parent):
    return [e for e in parent if isinstance(e.tag, str)]


def _call(parent, mname, prefix, prop, kwargs):
    if kwargs is None:  # generated inserter: needs a loose new child
        child = getattr(parent, "_new_" + prop)()
        return getattr(parent, mname)(child)
    if kwargs:
        table = _arg_values()
        kwargs = {k: table[r][vi] for k, (r, vi) in kwargs.items()}
    return getattr(parent, mname)(**kwargs)


class Prep:
    """What is learned about one (tag, T, mutator, args) by calling it on the empty parent and on every
    single-kind parent: the child kind it adds, the kinds it removes."""
    __slots__ = ("c", "removes", "group", "hint")


def _hint(cls, mname):
    """Closure hint: (nsptag clark of the declared child | None, member clarks of its choice group)."""
    try:
        from pptx.oxml.ns import qn
        fn = getattr(cls, mname)
        fn = getattr(fn, "__func__", fn)
        for cell in fn.__closure__ or ():
            o = cell.cell_contents
            tagn = getattr(o, "_nsptagname", None)
            members = None
            try:
                members = [qn(t) for t in o._member_nsptagnames]
            except Exception:
                members = None
            if tagn or members:
                return (qn(tagn) if tagn else None, members or [])
    except Exception:
        pass
    return (None, [])


def prepare(model, cls, tag, T, mname, prefix, prop, kwargs):
    pr = Prep()
    pr.c = None
    pr.removes = set()
    pr.group = set()
    pr.hint = _hint(cls, mname)
    kinds = model.kinds(T)
    # child kind: what the call adds to an empty parent; for removers what `_add_<prop>` adds
    probe = (mname, prefix, kwargs)
    if prefix == "_remove_":
        if callable(getattr(cls, "_add_" + prop, None)) and not _required_params(getattr(cls, "_add_" + prop)):
            probe = ("_add_" + prop, "_add_", {})
        else:
            probe = None
    if probe is not None:
        try:
            parent = _build(tag, ())
            _call(parent, probe[0], probe[1], prop, probe[2])
            added = _kids(parent)
            if len(added) == 1:
                pr.c = added[0].tag
        except Exception:
            pass
    if pr.c is None and pr.hint[0] in kinds:
        pr.c = pr.hint[0]
    if prefix in ("_remove_", "get_or_change_to_"):
        for k in kinds:
            try:
                parent = _build(tag, (k,))
                before = _kids(parent)
                _call(parent, mname, prefix, prop, kwargs)
                if before[0].getparent() is not parent:
                    pr.removes.add(k)
            except Exception:
                pass
    if prefix == "_remove_":
        if pr.c is not None:
            pr.removes.add(pr.c)
        for m in pr.hint[1]:
            if m in kinds:
                pr.removes.add(m)
    if prefix == "get_or_change_to_":
        pr.group = set(pr.removes)
        if pr.c is not None:
            pr.group.add(pr.c)
            pr.group.update(_schema_choice(model, T, pr.c))
    return pr


def _schema_choice(model, T, c):
    """Element members of the innermost non-repeatable xsd:choice of T that directly offers c."""
    found = []

    def flat(p, out):
        if p[0] == "elem":
            out.append(p[1])
        elif p[0] != "any":
            for k in p[1]:
                flat(k, out)

    def walk(p, rep):
        if p[0] in ("elem", "any"):
            return
        rep2 = rep or p[3] > 1
        if p[0] == "choice" and not rep2 and any(k[0] == "elem" and k[1] == c for k in p[1]):
            found.extend(k[1] for k in p[1] if k[0] == "elem")
        for k in p[1]:
            walk(k, rep2)

    walk(model.particles(T), False)
    return found


def eval_case(model, tag, T, mname, prefix, prop, kwargs, pr, ctx):
    """Run one case. Returns (status, rule, message, facts); status in
    'invalid-context' | 'raised' | 'not-in-type' | 'unplaceable' | 'ok' | 'fail'."""
    ctx = list(ctx)
    if not model.valid(T, ctx):
        return ("invalid-context", None, None, None)
    parent = _build(tag, ctx)
    pre = _kids(parent)
    if [e.tag for e in pre] != ctx:
        raise HarnessError("parent built for %s has children %r, wanted %r" % (tag, [e.tag for e in pre], ctx))
    try:
        _call(parent, mname, prefix, prop, kwargs)
    except Exception as e:  # noqa
        return ("raised", None, type(e).__name__, None)
    post = _kids(parent)
    pre_ids = set(map(id, pre))
    added = [e for e in post if id(e) not in pre_ids]
    post_ids = set(map(id, post))
    removed = [e for e in pre if id(e) not in post_ids]
    post_tags = [e.tag for e in post]
    kinds = set(model.kinds(T))
    facts = {"added": [local(e.tag) for e in added], "removed": [local(e.tag) for e in removed],
             "after": [local(t) for t in post_tags], "changed": bool(added or removed),
             "pos": None}
    if any(e.tag not in kinds for e in added):
        return ("not-in-type", None, None, facts)
    if len(added) == 1:
        i = post.index(added[0])
        facts["pos"] = "only" if len(post) == 1 else "first" if i == 0 else "last" if i == len(post) - 1 else "middle"
    show = lambda tags: "[" + ", ".join(local(t) for t in tags) + "]"  # noqa: E731
    head = "%s as %s, siblings %s: %s(%s) -> %s" % (ptag(tag), T[1], show(ctx), mname,
                                                  _kwlabel(kwargs), show(post_tags))
    # 1. promises that hold whatever the order
    if prefix == "_remove_":
        left = [t for t in post_tags if t in pr.removes]
        if left:
            return ("fail", "remove", head + ": %s still present" % show(left), facts)
    elif prefix == "get_or_change_to_":
        members = [t for t in post_tags if t in pr.group]
        if len(members) != 1:
            return ("fail", "change-to", head + ": %d members of the choice group remain %s"
                    % (len(members), show(members)), facts)
    elif prefix == "get_or_add_" and len(added) > 1:
        return ("fail", "get-or-add", head + ": first call added %d children" % len(added), facts)
    # 2. order
    if not model.valid(T, post_tags):
        base = [e.tag for e in post if id(e) in pre_ids]
        if not model.placeable(T, base, [e.tag for e in added]):
            return ("unplaceable", None, None, facts)
        return ("fail", "order", head + " which the schema does not allow, although a valid position for %s exists"
                % show([e.tag for e in added]), facts)
    # 3. get-or-add: a second call adds nothing
    if prefix == "get_or_add_":
        n1 = len(post)
        try:
            _call(parent, mname, prefix, prop, kwargs)
        except Exception as e:  # noqa
            return ("raised", None, type(e).__name__, facts)
        if len(_kids(parent)) > n1:
            return ("fail", "get-or-add", head + "; a second call added another child -> %s"
                    % show([e.tag for e in _kids(parent)]), facts)
    return ("ok", None, None, facts)


ADDING = ("_add_", "_insert_", "get_or_add_", "get_or_change_to_", "add_")


def eval_decoy(model, tag, T, mname, prefix, prop, kwargs, pr, ctx):
    """Siblings that carry descendants with the same tags as the parent's own child kinds (PowerPoint writes such
    documents: a:blip/a:extLst inside a:blipFill inside p:spPr). The new child must still become a DIRECT child of
    the parent at a schema-valid position: a successor search that descends into siblings puts it inside one."""
    from lxml import etree as _et
    ctx = list(ctx)
    if not model.valid(T, ctx) or not ctx:
        return None
    parent = _build(tag, ctx)
    kinds = model.kinds(T)
    for el in _kids(parent):
        for k in kinds:
            _et.SubElement(el, k)
    pre = _kids(parent)
    deep_before = sum(1 for _ in parent.iter()) - 1
    try:
        _call(parent, mname, prefix, prop, kwargs)
    except Exception:  # noqa
        return None
    post = _kids(parent)
    pre_ids = set(map(id, pre))
    added = [e for e in post if id(e) not in pre_ids]
    deep_after = sum(1 for _ in parent.iter()) - 1
    show = lambda tags: "[" + ", ".join(local(t) for t in tags) + "]"  # noqa: E731
    head = "%s as %s, siblings %s each holding descendants named like the parent's child kinds: %s(%s)" % (
        ptag(tag), T[1], show(ctx), mname, _kwlabel(kwargs))
    if pr.c and not added and deep_after > deep_before and not any(e.tag == pr.c for e in pre):
        return ("misplaced", head + " added no direct child: the new element was inserted inside a sibling")
    post_tags = [e.tag for e in post]
    if added and not model.valid(T, post_tags):
        base = [e.tag for e in post if id(e) in pre_ids]
        if model.placeable(T, base, [e.tag for e in added]):
            return ("order-decoy", head + " -> %s which the schema does not allow" % show(post_tags))
    return None


def eval_nested(model, tag, T, mname, prefix, prop, kwargs, pr):
    """One sibling k holding one schema-permitted child g of its own (every (k, g)); the whole parent subtree must
    validate against the relaxed schema after the call if it did before: catches hand-written mutators that edit
    grandchildren (e.g. change-to on a choice group one level down) and leave two members of a choice."""
    from mc.oracles import xsd as X
    if T[0] not in (X.NS_P, X.NS_A, X.NS_C):
        return []
    R = X.SchemaSet.get(True)
    from lxml import etree as _et
    out = []
    for k, kt in model.index.child_tags(T):
        if kt is None or kt not in model.index.ctypes:
            continue
        if not model.valid(T, [k]):
            continue
        for g in model.kinds(kt):
            parent = _build(tag, [k])
            kid = _kids(parent)[0]
            if len(kid):
                continue  # template-filled child: leave as is
            _et.SubElement(kid, g)
            try:
                if R.fragment_errors(parent, T):
                    continue
            except Exception:  # noqa
                continue
            try:
                _call(parent, mname, prefix, prop, kwargs)
            except Exception:  # noqa
                continue
            if not model.valid(T, [e.tag for e in _kids(parent)]):
                continue  # the direct-child sequence itself is the order oracle's business (or the child was not placeable)
            errs = R.fragment_errors(parent, T)
            if errs:
                out.append((local(k), local(g), "%s as %s holding <%s><%s/></%s>: %s(%s) leaves the subtree invalid: %s" % (
                    ptag(tag), T[1], local(k), local(g), local(k), mname, _kwlabel(kwargs), errs[0][1][:200])))
    return out


# ---- hand-written property setters ----------------------------------------------------------------------
#
# Element classes also add / replace children through `@x.setter` properties (line_spacing, space_before, x/y/cx/cy,
# rot, autofit, srcRect_l ...). They are discovered as properties with a setter that is not an xmlchemy attribute
# declaration, and driven with every value of a small table the setter accepts, on the empty parent, on every
# single-sibling parent, and after a PREVIOUS assignment of every other accepted value (history). Judged: the
# direct-child order oracle plus deep validation of the parent against the relaxed schema (structural errors only).

FLOOR_SETTERS = 80
SETTER_NAME_VALUES = {"orientation": ["maxMin", "minMax"]}
_ENUM_MEMBERS_MAX = 6


def _base_values():
    import datetime as dt
    from pptx.util import Emu, Pt
    return [("None", None), ("True", True), ("False", False), ("int", 7), ("Emu", Emu(914400)), ("Pt", Pt(20)),
            ("float", 1.5), ("str", "t"), ("datetime", dt.datetime(2020, 1, 2, 3, 4, 5))]


_ENUMS = None


def _enum_classes():
    """name -> enum class, every Enum defined in pptx.enum.*, deterministic order."""
    global _ENUMS
    if _ENUMS is None:
        import enum
        import importlib
        import pkgutil
        out = {}
        try:
            import pptx.enum as pe
            for mi in sorted(pkgutil.iter_modules(pe.__path__), key=lambda m: m.name):
                try:
                    mod = importlib.import_module("pptx.enum." + mi.name)
                except Exception:
                    continue
                for n in sorted(vars(mod)):
                    o = getattr(mod, n)
                    if isinstance(o, type) and issubclass(o, enum.Enum) and o.__module__ == mod.__name__ and len(o):
                        out[n] = o
        except Exception:
            pass
        _ENUMS = out
    return _ENUMS


def _value_of(label, pname):
    for lab, v in _base_values():
        if lab == label:
            return v
    if label.startswith("str="):
        return label[4:]
    cname, mname = label.split(".", 1)
    return _enum_classes()[cname][mname]


def discover_setters(cls):
    """Names of properties with a hand-written setter (attribute declarations excluded)."""
    out = []
    try:
        from pptx.oxml.xmlchemy import BaseAttribute
    except Exception:
        BaseAttribute = ()
    for name in sorted(dir(cls)):
        if name.startswith("__"):
            continue
        try:
            attr = inspect.getattr_static(cls, name)
        except AttributeError:
            continue
        if not isinstance(attr, property) or attr.fset is None:
            continue
        fset = attr.fset
        if getattr(fset, "__module__", "") == "pptx.oxml.xmlchemy":
            continue
        decl = False
        for cell in getattr(fset, "__closure__", None) or ():
            try:
                if BaseAttribute and isinstance(cell.cell_contents, BaseAttribute):
                    decl = True
            except ValueError:
                pass
        if not decl:
            out.append(name)
    return out


def _structural(errs):
    return [m for _, m in errs if "is not expected" in m or "ontent is not allowed" in m]


def _deep_errors(parent, T):
    if T[0] not in (X.NS_P, X.NS_A, X.NS_C):
        return []
    try:
        return _structural(X.SchemaSet.get(True).fragment_errors(parent, T))
    except Exception:  # noqa
        return []


def _build_nested(tag, ctx, nest):
    parent = _build(tag, ctx)
    if nest is not None:
        from lxml import etree as _et
        kid = _kids(parent)[0]
        if len(kid):
            return None
        _et.SubElement(kid, nest)
    return parent


def setter_accepts(tag, T, name, ctxs, model):
    """Labels of the table values the setter takes without raising in at least one of the contexts. Enum members
    are offered only for the enum class(es) the GETTER returns a member of after a successful assignment (else
    every int-valued enum would pass for a bool / int setter)."""
    import enum
    acc = []
    workable = []
    enum_classes = []

    def tries(value, where):
        for cx in where:
            try:
                parent = _build(tag, cx)
                setattr(parent, name, value)
            except Exception:  # noqa
                continue
            if cx not in workable:
                workable.append(cx)
            try:
                got = getattr(parent, name)
                if isinstance(got, enum.Enum) and type(got) not in enum_classes:
                    enum_classes.append(type(got))
            except Exception:  # noqa
                pass
            return True
        return False

    for lab, v in _base_values():
        if tries(v, ctxs):
            acc.append(lab)
    for v in SETTER_NAME_VALUES.get(name, ()):
        if tries(v, ctxs):
            acc.append("str=" + v)
    if not enum_classes and "int" not in acc and "True" not in acc:
        where = workable or ctxs
        for cname, ecls in _enum_classes().items():
            if tries(next(iter(ecls)), where) and not enum_classes:
                enum_classes.append(ecls)
    known = {v: k for k, v in _enum_classes().items()}
    for ecls in sorted(enum_classes, key=lambda c: c.__name__):
        if ecls not in known:
            continue
        for m in list(ecls)[:_ENUM_MEMBERS_MAX]:
            if tries(m, workable or ctxs):
                acc.append("%s.%s" % (known[ecls], m.name))
    return acc


def eval_setter(model, tag, T, name, ctx, nest, prev, val):
    """One setter case. Returns (status, rule, message, changed); status 'invalid-context' | 'raised' |
    'prev-invalid' | 'unplaceable' | 'ok' | 'fail'."""
    from lxml import etree as _et
    ctx = list(ctx)
    if not model.valid(T, ctx):
        return ("invalid-context", None, None, False)
    parent = _build_nested(tag, ctx, nest)
    if parent is None or _deep_errors(parent, T):
        return ("invalid-context", None, None, False)
    try:
        if prev is not None:
            setattr(parent, name, _value_of(prev, name))
            if not model.valid(T, [e.tag for e in _kids(parent)]) or _deep_errors(parent, T):
                return ("prev-invalid", None, None, False)
        pre = _kids(parent)
        before = _et.tostring(parent)
        setattr(parent, name, _value_of(val, name))
    except Exception as e:  # noqa
        return ("raised", None, type(e).__name__, False)
    post = _kids(parent)
    changed = _et.tostring(parent) != before
    show = lambda tags: "[" + ", ".join(local(t) for t in tags) + "]"  # noqa: E731
    head = "%s as %s, siblings %s%s%s: .%s = %s" % (
        ptag(tag), T[1], show(ctx), " (first holding <%s/>)" % local(nest) if nest else "",
        ", after .%s = %s" % (name, prev) if prev is not None else "", name, val)
    post_tags = [e.tag for e in post]
    if not model.valid(T, post_tags):
        pre_ids = set(map(id, pre))
        base = [e.tag for e in post if id(e) in pre_ids]
        added = [e.tag for e in post if id(e) not in pre_ids]
        if not model.placeable(T, base, added):
            # the children the new value needs cannot coexist with what is there. If what is there was put there by
            # the PREVIOUS assignment of the same property (and the same assignment on the fresh parent is fine), the
            # setter failed to replace its own earlier choice: 'change to' must leave one member of the group.
            if prev is not None and eval_setter(model, tag, T, name, ctx, nest, None, val)[0] == "ok":
                return ("fail", "setter", head + " -> children %s: the earlier choice was not replaced" % show(post_tags),
                        changed)
            # ... or what is there is ANOTHER member of the exclusive choice the new child belongs to (a:custDash when
            # the setter writes a:prstDash): a property setter that chooses one member must displace the other
            if prev is None and added and set(added).isdisjoint(base) and model.same_choice(T, base, added):
                return ("fail", "setter", head + " -> children %s: the other member of the choice was not displaced" % show(post_tags),
                        changed)
            return ("unplaceable", None, None, changed)
        return ("fail", "setter-order", head + " -> children %s which the schema does not allow" % show(post_tags), changed)
    errs = _deep_errors(parent, T)
    if errs:
        bare = X._bare_copy(parent)
        for el in bare.iter():
            for k in list(el.attrib):
                del el.attrib[k]
            el.text = None
        xml = _et.tostring(bare).decode()
        return ("fail", "setter", head + " leaves the subtree invalid: %s; subtree %s" % (errs[0][:160], xml[:300]), changed)
    return ("ok", None, None, changed)


def _rank(label, acc):
    """Witness preference: plain typed values before the bool aliases of int."""
    if label is None:
        return (0, 0)
    return (1 if label in ("True", "False") else 0, acc.index(label) if label in acc else len(acc))


def _work_setter(part, model, thorough, tag, T, name):
    kinds = model.kinds(T)
    ctxs = [()] + [(k,) for k in kinds if model.valid(T, [k])]
    acc = setter_accepts(tag, T, name, ctxs, model)
    part.count("setter_items")
    if not acc:
        part.count("setter_items_never_callable")
        return
    cases = []
    for cx in ctxs:
        for v in acc:
            cases.append((cx, None, None, v))
        for v1 in acc:
            for v2 in acc:
                cases.append((cx, None, v1, v2))
    if thorough:
        for k, kt in model.index.child_tags(T) if T[0] in (X.NS_P, X.NS_A, X.NS_C) else ():
            if kt is None or kt not in model.index.ctypes or not model.valid(T, [k]):
                continue
            for g in model.kinds(kt):
                for v in acc:
                    cases.append(((k,), g, None, v))
    best = {}
    judged = 0
    for (cx, nest, prev, val) in cases:
        status, rule, msg, changed = eval_setter(model, tag, T, name, cx, nest, prev, val)
        part.count("setter_evaluations")
        part.outcome("setter", status)
        if status in ("ok", "fail"):
            judged += 1
            part.count("setter_judged")
            if prev is not None:
                part.count("setter_history_judged")
            if changed and (cx or prev is not None):
                part.count("nontrivial_count")
        else:
            part.count("setter_not_judged_" + status.replace("-", "_"))
        if status == "fail":
            key = (len(cx), tuple(local(k) for k in cx), local(nest) if nest else "", prev is not None,
                   _rank(prev, acc), _rank(val, acc))
            if rule not in best or key < best[rule][0]:
                best[rule] = (key, msg, cx, nest, prev, val)
    if judged:
        part.count("setter_items_judged")
    for rule, (key, msg, cx, nest, prev, val) in sorted(best.items()):
        sig = "C10|%s|%s|%s|%s|ctx=%s%s|prev=%s|val=%s" % (
            rule, ptag(tag), T[1], name, ",".join(key[1]), ">" + key[2] if key[2] else "", prev or "-", val)
        part.violation(sig, msg, {"rule": rule, "tag": tag, "type": list(T), "setter": name, "ctx": list(cx),
                                  "nest": nest, "prev": prev, "val": val})
    if judged and zlib.crc32(("%s %s" % (tag, name)).encode()) % 23 == 0:
        part.sample({"parent": ptag(tag), "type": T[1], "setter": name, "accepted_values": acc,
                     "contexts": len(ctxs), "cases": len(cases)})



def _kwlabel(kwargs):
    if not kwargs:
        return ""
    table = _arg_values()
    return ", ".join("%s=%r" % (k, table[r][vi]) for k, (r, vi) in sorted(kwargs.items()))


# ---- enumeration ----------------------------------------------------------------------------------------

_STATE = {}


def _items(model, classes):
    """All (tag, T, method, prefix, prop, label, kwargs) work items, canonical order."""
    items, skipped, nmut = [], [], 0
    per_cls = {}
    for tag in sorted(classes):
        cls = classes[tag]
        if cls not in per_cls:
            per_cls[cls] = discover_mutators(cls)
            nmut += len(per_cls[cls][0])
            skipped.extend("%s.%s" % (cls.__name__, s) for s in per_cls[cls][1])
        for T in model.types_of(tag):
            for (mname, prefix, prop, variants) in per_cls[cls][0]:
                for label, kwargs in variants:
                    items.append((tag, T, mname, prefix, prop, label, kwargs))
    return items, sorted(set(skipped)), nmut


def _setter_items(model, classes):
    """(tag, T, setter name, "setter", None, "", None) work items; also the number of distinct (class, setter)."""
    items, per_cls = [], {}
    for tag in sorted(classes):
        cls = classes[tag]
        if cls not in per_cls:
            per_cls[cls] = discover_setters(cls)
        for T in model.types_of(tag):
            for name in per_cls[cls]:
                items.append((tag, T, name, "setter", None, "", None))
    return items, sum(len(v) for v in per_cls.values())


def _mut_label(mname, label):
    return mname + ("(%s)" % label if label else "")


def _work(part, chunk):
    model, classes, thorough = _STATE["model"], _STATE["classes"], _STATE["thorough"]
    for (tag, T, mname, prefix, prop, label, kwargs) in chunk:
        if prefix == "setter":
            _work_setter(part, model, thorough, tag, T, mname)
            continue
        cls = classes[tag]
        pr = prepare(model, cls, tag, T, mname, prefix, prop, kwargs)
        ctxs = model.contexts(T, pr.c, thorough)
        part.count("contexts_generated", len(ctxs))
        fails = {}
        judged = 0
        sample = None
        for cx in ctxs:
            status, rule, msg, facts = eval_case(model, tag, T, mname, prefix, prop, kwargs, pr, cx)
            if status == "invalid-context":
                part.count("discarded_context_invalid_before_call")
                continue
            part.count("evaluations")
            part.outcome(prefix, status if status not in ("ok", "fail") else
                         "%s:+%d-%d:%s" % (status, len(facts["added"]), len(facts["removed"]), facts["pos"]))
            if status == "raised":
                part.count("not_judged_mutator_raised")
                continue
            if status == "not-in-type":
                part.count("not_judged_child_not_permitted_by_type")
                continue
            if status == "unplaceable":
                part.count("not_judged_no_valid_position_exists")
                continue
            judged += 1
            part.count("judged")
            if cx and facts["changed"]:
                part.count("nontrivial_count")
                if facts["pos"] == "middle":
                    part.count("inserted_between_siblings")
                    if sample is None and len(cx) <= 6:
                        sample = {"parent": ptag(tag), "type": T[1], "mutator": _mut_label(mname, label),
                                  "siblings": [local(k) for k in cx], "children_after": facts["after"],
                                  "status": status}
            if status == "fail":
                key = (len(cx), tuple(local(k) for k in cx))
                cur = fails.get(rule)
                if cur is None or key < cur[0]:
                    fails[rule] = (key, msg, cx)
        if prefix in ADDING and judged:
            dfail = {}
            for cx in ctxs:
                if not (1 <= len(cx) <= 2):
                    continue
                r = eval_decoy(model, tag, T, mname, prefix, prop, kwargs, pr, cx)
                part.count("evaluations")
                part.count("decoy_contexts")
                if r is not None:
                    key = (len(cx), tuple(local(k) for k in cx))
                    if r[0] not in dfail or key < dfail[r[0]][0]:
                        dfail[r[0]] = (key, r[1], cx)
            for rule, (key, msg, cx) in sorted(dfail.items()):
                sig = "C10|%s|%s|%s|%s|ctx=%s" % (rule, ptag(tag), T[1], _mut_label(mname, label), ",".join(key[1]))
                part.violation(sig, msg, {"tag": tag, "type": list(T), "mutator": mname, "label": label,
                                          "ctx": list(cx), "rule": rule})
            nfails = eval_nested(model, tag, T, mname, prefix, prop, kwargs, pr)
            part.count("nested_passes")
            if nfails:
                k, g, msg = sorted(nfails)[0]
                sig = "C10|nested|%s|%s|%s|ctx=%s>%s" % (ptag(tag), T[1], _mut_label(mname, label), k, g)
                part.violation(sig, msg, {"tag": tag, "type": list(T), "mutator": mname, "label": label,
                                          "ctx": [], "rule": "nested"})
        if judged:
            part.count("items_judged")  # (tag, type, mutator, args) with at least one judged case
            part.add("classes_judged", cls.__name__)
        else:
            part.count("items_never_judged")
        for rule, (key, msg, cx) in sorted(fails.items()):
            sig = "C10|%s|%s|%s|%s|ctx=%s" % (rule, ptag(tag), T[1], _mut_label(mname, label), ",".join(key[1]))
            part.violation(sig, msg, {"tag": tag, "type": list(T), "mutator": mname, "label": label,
                                      "ctx": list(cx), "rule": rule})
        if sample is not None and (zlib.crc32(("%s %s" % (tag, mname)).encode()) % 97 == 0
                                   or (ptag(tag), mname) == ("a:p", "get_or_add_pPr")):
            part.sample(sample)


def _setup(thorough):
    model = Model()
    classes, via_registry, via_probe = discover_classes(model)
    _STATE.update(model=model, classes=classes, thorough=thorough)
    return model, classes, via_registry, via_probe


def run(ctx):
    model, classes, via_registry, via_probe = _setup(ctx.thorough)
    ncls = len(set(classes.values()))
    items, skipped, nmut = _items(model, classes)
    if ncls < FLOOR_CLASSES:
        raise HarnessError("discovery found %d element classes < floor %d" % (ncls, FLOOR_CLASSES))
    if nmut < FLOOR_MUTATORS:
        raise HarnessError("discovery found %d mutators < floor %d" % (nmut, FLOOR_MUTATORS))
    sitems, nset = _setter_items(model, classes)
    if nset < FLOOR_SETTERS:
        raise HarnessError("discovery found %d hand-written property setters < floor %d" % (nset, FLOOR_SETTERS))
    no_type = sorted(ptag(t) for t in classes if not model.types_of(t))

    # model conformance probe: every skeleton derived from the Index particle tree must be accepted by libxml2
    bad_skel = 0
    types_seen = set()
    for tag in classes:
        for T in model.types_of(tag):
            if T in types_seen:
                continue
            types_seen.add(T)
            for s in model.skeletons(T):
                if not model.valid(T, s):
                    bad_skel += 1
    if bad_skel > max(2, len(types_seen) // 20):
        raise HarnessError("%d particle-tree skeletons rejected by libxml2: Index and relaxed schema disagree" % bad_skel)

    fanout(ctx, _work, ctx.rotate(items + sitems), chunk_size=1)

    c = ctx.counters
    accounted = c.get("discarded_context_invalid_before_call", 0) + c.get("evaluations", 0) - c.get("decoy_contexts", 0)
    if accounted != c.get("contexts_generated", 0):
        raise HarnessError("contexts generated %d != accounted for %d" % (c.get("contexts_generated", 0), accounted))
    if c.get("judged", 0) < 10000:
        raise HarnessError("only %d judged cases: enumeration is vacuous" % c.get("judged", 0))
    if c.get("setter_judged", 0) < 1000:
        raise HarnessError("only %d judged setter cases: setter pass is vacuous" % c.get("setter_judged", 0))
    c["evaluations"] = c.get("evaluations", 0) + c.get("setter_evaluations", 0)
    ctx.extra.update({
        "registered_tags": len(classes), "element_classes": ncls, "tags_via_registry": via_registry,
        "tags_via_parse_probe_only": via_probe, "mutators_discovered": nmut,
        "work_items(tag,type,mutator,args)": len(items), "complex_types": len(types_seen),
        "mutators_skipped_unknown_arguments": skipped, "tags_without_schema_type": no_type,
        "skeletons_rejected_by_libxml2": bad_skel,
        "property_setters_discovered": nset, "setter_work_items(tag,type,setter)": len(sitems),
    })


def replay(data):
    model, classes, _, _ = _setup(False)
    if str(data.get("rule", "")).startswith("setter"):
        status, rule, msg, _ = eval_setter(model, data["tag"], tuple(data["type"]), data["setter"], data["ctx"],
                                           data.get("nest"), data.get("prev"), data["val"])
        return msg if status == "fail" and rule == data["rule"] else None
    tag, T, mname, label = data["tag"], tuple(data["type"]), data["mutator"], data.get("label", "")
    cls = classes.get(tag)
    if cls is None:
        return None
    for (name, prefix, prop, variants) in discover_mutators(cls)[0]:
        if name != mname:
            continue
        for lab, kwargs in variants:
            if lab != label:
                continue
            pr = prepare(model, cls, tag, T, mname, prefix, prop, kwargs)
            if data.get("rule") in ("misplaced", "order-decoy"):
                r = eval_decoy(model, tag, T, mname, prefix, prop, kwargs, pr, data["ctx"])
                return r[1] if r is not None and r[0] == data["rule"] else None
            if data.get("rule") == "nested":
                nf = eval_nested(model, tag, T, mname, prefix, prop, kwargs, pr)
                return sorted(nf)[0][2] if nf else None
            status, rule, msg, _ = eval_case(model, tag, T, mname, prefix, prop, kwargs, pr, data["ctx"])
            if status == "fail" and rule == data.get("rule", rule):
                return msg
            return None
    return None
