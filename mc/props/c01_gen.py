"""C01 helper: abstract packages (names x rooted digraph x style vector) -> physical members.

Everything here is harness-side: plain string formatting, no python-pptx, no posixpath.  A *case* is a
JSON-able dict

    {"names": ["/a.xml", ...],            # the k part names (index = part number)
     "edges": [[src, tgt], ...],          # src == -1 is the package root; simple digraph, canonical order
     "style": {"slot": "value", ...}}     # only the slots that deviate from the default

and `build(case)` returns `(members, model)` where `members` is the dict member-name -> bytes to be
written by the harness's zip/dir writer and `model` is what the abstract package *means*
(part -> content type, payload, xml?; source -> list of (id, type, mode, target)), used to cross-check
the independent reader (`opc_ref`) on the input before the implementation is judged with it.
"""

from __future__ import annotations

import itertools

NAMES = ["/a.xml", "/d/b.bin", "/d/e/c.BIN", "/d/x.xml", "/d/e/f/g", "/d/[1]%20p\u00a0e\u0301.png", "/de/e/y.xml"]  # "/de/e": a directory path that differs from "/d/e" in its FIRST segment only (same deeper name); "/de": a sibling whose name has "/d" as a string prefix; "%20": a percent-escape is part of the NAME; U+00A0 and e + U+0301: a no-break space and a decomposed accent are part of the name too (neither whitespace collapsing nor Unicode normalisation nor percent-quoting may touch a target) (OPC part names are stored escaped; resolving a target must not unquote it)
DEFAULT_NAMES = {1: (0,), 2: (1, 2), 3: (0, 1, 2), 4: (0, 1, 2, 3)}

CT_NS = "http://schemas.openxmlformats.org/package/2006/content-types"
REL_NS = "http://schemas.openxmlformats.org/package/2006/relationships"
CT_RELS = "application/vnd.openxmlformats-package.relationships+xml"

PML_SLIDE = "application/vnd.openxmlformats-officedocument.presentationml.slide+xml"
# listed (extension, type) pairs the writer may express as <Default>; own copy, cross-checked against
# pptx.opc.spec.default_content_types by c01.run() (floor: the three 'bin' entries must be there)
LISTED = {
    "xml": ["application/xml"],
    "bin": ["application/vnd.openxmlformats-officedocument.presentationml.printerSettings",
            "application/vnd.openxmlformats-officedocument.spreadsheetml.printerSettings",
            "application/vnd.openxmlformats-officedocument.wordprocessingml.printerSettings"],
    "png": ["image/png"],
}
REL_TYPE = "http://schemas.verif.example/relationships/to-part-%d"
REL_TYPE_EXT = "http://schemas.openxmlformats.org/officeDocument/2006/relationships/hyperlink"
EXT_TARGET = "http://example.com/%%7Everif/page?src=%d&x=1#frag"

# ---- slots -------------------------------------------------------------------------------------------
# value lists exclude the default; graph-dependent slots are expanded by slot_values()
SLOT_ORDER = ["names", "types", "ctdecl", "target", "ids", "payload", "container", "orphan", "parallel", "external"]
FIXED_VALUES = {
    "ctdecl": ["default", "default-upper", "override-case"],
    "target": ["dot", "dotdot", "abs", "mode-internal"],   # mode-internal: the default TargetMode="Internal" spelled out
    "ids": ["reversed", "nonrid", "rid10"],
    "payload": ["empty", "all256", "xmlrich", "xmlblob"],
    "container": ["path", "dir"],
    "orphan": ["present"],
}
TYPE_VALUES = ["listed", "listed-differ", "one-unknown", "one-unknown-rev"]


def ext_of(name: str) -> str:
    fn = name.rsplit("/", 1)[1]
    i = fn.rfind(".")
    return fn[i + 1:] if i > 0 else ""


def ext_groups(names):
    """lower-case extension -> list of part indices (in name order); parts without extension excluded."""
    g = {}
    for i, n in enumerate(names):
        e = ext_of(n).lower()
        if e:
            g.setdefault(e, []).append(i)
    return g


def type_value_applicable(names, value) -> bool:
    groups = ext_groups(names)
    if value == "listed":
        return any(e in LISTED for e in groups)
    if value == "listed-differ":
        return any(len(ix) >= 2 and len(LISTED.get(e, ())) >= 2 for e, ix in groups.items())
    if value in ("one-unknown", "one-unknown-rev"):
        return any(len(ix) >= 2 and e in LISTED for e, ix in groups.items())
    raise ValueError(value)


def name_sets(k):
    return list(itertools.combinations(range(len(NAMES)), k))


def slot_values(slot, k, nedges, names, light=False):
    """Non-default values of `slot` for a graph with k parts / nedges edges and the given part names.
    light=True leaves out the populous values (other name sets, per-edge doubling)."""
    if light and slot == "names":
        return []
    if light and slot == "parallel":
        return ["all"]
    if slot in FIXED_VALUES:
        return list(FIXED_VALUES[slot])
    if slot == "types":
        return [v for v in TYPE_VALUES if type_value_applicable(names, v)]
    if slot == "names":
        dflt = DEFAULT_NAMES[k]
        return ["+".join(NAMES[i] for i in c) for c in name_sets(k) if c != dflt]
    if slot == "parallel":
        return ["all"] + ["e%d" % i for i in range(nedges)]
    if slot == "external":
        return ["root"] + ["p%d" % i for i in range(k)] + ["all"]
    raise ValueError(slot)


def names_for(k, style):
    v = style.get("names")
    if v is None:
        return [NAMES[i] for i in DEFAULT_NAMES[k]]
    return v.split("+")


def style_vectors(k, nedges, maxdev, slots=None, light=False):
    """All style vectors with at most `maxdev` deviating slots (dicts slot -> value), canonical order.
    A 'types' value is applicable relative to the names in force in the same vector."""
    slots = list(slots or SLOT_ORDER)
    out = [{}]
    if maxdev >= 1:
        dn = names_for(k, {})
        for s in slots:
            for v in slot_values(s, k, nedges, dn, light):
                out.append({s: v})
    if light and maxdev >= 2:
        raise ValueError("light vectors are defined for <= 1 deviation only")
    if maxdev >= 2:
        for a, b in itertools.combinations(slots, 2):
            dn = names_for(k, {})
            for va in slot_values(a, k, nedges, dn):
                nm = names_for(k, {a: va}) if a == "names" else dn
                for vb in slot_values(b, k, nedges, nm):
                    out.append({a: va, b: vb})
    if maxdev >= 3:
        raise ValueError("deviation bound > 2 not implemented")
    return out


def count_style_vectors(k, nedges, maxdev, slots=None, light=False):
    """Closed-form size of style_vectors() computed without building the vectors."""
    slots = list(slots or SLOT_ORDER)
    dn = names_for(k, {})
    n = {s: len(slot_values(s, k, nedges, dn, light)) for s in slots}
    total = 1
    if maxdev >= 1:
        total += sum(n.values())
    if maxdev >= 2:
        plain = [s for s in slots if s not in ("names", "types")]
        e1 = sum(n[s] for s in plain)
        e2 = (e1 * e1 - sum(n[s] * n[s] for s in plain)) // 2
        total += e2
        if "types" in slots:
            total += n["types"] * e1
        if "names" in slots:
            total += n["names"] * e1
            if "types" in slots:
                for c in name_sets(k):
                    if c != DEFAULT_NAMES[k]:
                        total += sum(1 for v in TYPE_VALUES if type_value_applicable([NAMES[i] for i in c], v))
    return total


# ---- graphs ------------------------------------------------------------------------------------------

def edge_universe(k):
    return [(-1, j) for j in range(k)] + [(i, j) for i in range(k) for j in range(k)]


def all_reachable(k, edges) -> bool:
    adj = {}
    for s, t in edges:
        adj.setdefault(s, []).append(t)
    seen, stack = set(), [-1]
    while stack:
        s = stack.pop()
        for t in adj.get(s, ()):
            if t not in seen:
                seen.add(t)
                stack.append(t)
    return len(seen) == k


def graphs(k):
    """Every simple digraph on root + k labelled parts (self-loops allowed, no edge into the root) in
    which every part is reachable from the root; as edge lists in canonical (bitmask) order."""
    E = edge_universe(k)
    out = []
    for mask in range(1 << len(E)):
        es = [E[b] for b in range(len(E)) if mask >> b & 1]
        if all_reachable(k, es):
            out.append(es)
    return out


def mask_reachable(k, mask) -> bool:
    full = (1 << k) - 1
    reach = mask & full
    changed = True
    while changed and reach != full:
        changed = False
        for i in range(k):
            if reach >> i & 1:
                row = (mask >> (k + i * k)) & full
                if row & ~reach:
                    reach |= row
                    changed = True
    return reach == full


_PERM_TABLES = {}


def _perm_tables(k):
    """For each non-identity permutation of the parts: bit position -> bit position."""
    if k not in _PERM_TABLES:
        E = edge_universe(k)
        idx = {e: i for i, e in enumerate(E)}
        tabs = []
        for p in itertools.permutations(range(k)):
            if list(p) == list(range(k)):
                continue
            tabs.append([idx[(-1 if s == -1 else p[s], p[t])] for s, t in E])
        _PERM_TABLES[k] = tabs
    return _PERM_TABLES[k]


def mask_is_canonical(k, mask) -> bool:
    """True iff `mask` is the smallest bitmask among all relabellings of the parts (one representative
    per isomorphism class of rooted digraphs)."""
    bits = [b for b in range(k + k * k) if mask >> b & 1]
    for tab in _perm_tables(k):
        m = 0
        for b in bits:
            m |= 1 << tab[b]
        if m < mask:
            return False
    return True


def mask_edges(k, mask):
    E = edge_universe(k)
    return [E[b] for b in range(len(E)) if mask >> b & 1]


def shape_features(k, edges):
    """Coarse shape class of a rooted digraph (used in violation signatures): independent of the number of
    parts; 'chain' is reported only when nothing cyclic/shared is present."""
    es = sorted(set((s, t) for s, t in edges))
    feats = []
    if any(s == t for s, t in es):
        feats.append("selfloop")
    # directed cycle of length >= 2 among parts
    adj = {}
    for s, t in es:
        if s != t and s != -1:
            adj.setdefault(s, set()).add(t)
    def reaches(a, b, seen):
        for n in adj.get(a, ()):
            if n == b or (n not in seen and not seen.add(n) and reaches(n, b, seen)):
                return True
        return False
    if any(reaches(i, i, set()) for i in range(k)):
        feats.append("cycle")
    indeg = {}
    for s, t in es:
        if s != t:
            indeg[t] = indeg.get(t, 0) + 1
    if any(v >= 2 for v in indeg.values()):
        feats.append("shared-target")
    if not feats and any((-1, j) not in es for j in range(k)):
        feats.append("chain")   # some part hangs off another part only
    return "+".join(feats) if feats else "star"


def star(k):
    return [[-1, j] for j in range(k)]


# ---- physical forms ----------------------------------------------------------------------------------

def _esc(s: str) -> str:
    return s.replace("&", "&amp;").replace("<", "&lt;").replace('"', "&quot;")


def rel_ref(source: str, target: str) -> str:
    """Relative reference from the directory of `source` ('/' for the package) to part `target`."""
    base = [] if source == "/" else source.split("/")[1:-1]
    tgt = target.split("/")[1:]
    tdir = tgt[:-1]
    c = 0
    while c < len(base) and c < len(tdir) and base[c] == tdir[c]:
        c += 1
    return "../" * (len(base) - c) + "/".join(tgt[c:])


def target_text(form: str, source: str, target: str) -> str:
    rel = rel_ref(source, target)
    if form in ("rel", "mode-internal"):
        return rel
    if form == "dot":
        return "./" + rel
    if form == "abs":
        return target
    if form == "dotdot":
        base = [] if source == "/" else source.split("/")[1:-1]
        if base:
            return "../" + base[-1] + "/" + rel          # climb out of the source directory and come back
        return "q/../" + rel                              # root: step into a directory and climb back
    raise ValueError(form)


def rel_ids(form: str, n: int):
    if form == "order":
        return ["rId%d" % (i + 1) for i in range(n)]
    if form == "reversed":
        return ["rId%d" % (n - i) for i in range(n)]
    if form == "nonrid":
        pats = ["x%d", "rId%dA", "RID%d", "_%d", "id-%d.b"]
        return [pats[i % len(pats)] % (i + 1) for i in range(n)]
    if form == "rid10":
        seq = [10, 2, 1, 11, 3, 4, 5, 6, 7, 8, 9] + list(range(12, 40))
        return ["rId%d" % seq[i] for i in range(n)]
    raise ValueError(form)


XML_RICH = (
    '<?xml version="1.0" encoding="UTF-8" standalone="yes"?>\n'
    '<!-- comment before the root -->\n'
    '<?verif-top before root?>\n'
    '<p:sld xmlns:a="http://schemas.openxmlformats.org/drawingml/2006/main"'
    ' xmlns:p="http://schemas.openxmlformats.org/presentationml/2006/main"'
    ' xmlns:r="http://schemas.openxmlformats.org/officeDocument/2006/relationships"'
    ' xmlns:unused="urn:verif:unused">\n'
    '  <!-- comment in element content: part %(i)d -->\n'
    '  <?verif-pi keep me   spaced ?>\n'
    '  <p:cSld name="  two  spaces &amp; &lt;x&gt; &#xA;nl &#x9;tab &#xE9; %(i)d">\n'
    '    <p:spTree>\n'
    '      <p:sp><p:txBody><a:bodyPr/><a:p>'
    '<a:r><a:t>  lead and trail  </a:t></a:r>'
    '<a:r><a:t> </a:t></a:r>'
    '<a:r><a:t xml:space="preserve">\n line2\ttab </a:t></a:r>'
    '<a:r><a:t><![CDATA[<cdata> & ]] stuff]]></a:t></a:r>'
    '<a:r><a:t>é ✓ \U0001d11e &#13;cr</a:t></a:r>'
    '<a:r><a:t><?pi-in-text x?>a<!-- c -->b</a:t></a:r>'
    '</a:p></p:txBody></p:sp>\n'
    '    </p:spTree>\n'
    '  </p:cSld>\n'
    '  <p:extLst><p:ext uri="{verif}"><v:x xmlns:v="urn:verif:ext" v:attr="1" xml:space="preserve"> <v:y/> <v:y/> </v:x></p:ext></p:extLst>\n'
    '</p:sld>\n'
    '<!-- trailing comment -->\n'
)


def fixed_payload(i: int) -> bytes:
    return b"\x89VERIF\r\n\x1a\n\x00\xff" + bytes([i, 255 - i]) * 7 + b"<not-xml&"


def part_types(names, style):
    """Content type per part index as meant by the 'types' slot (before payload=xmlrich overrides)."""
    v = style.get("types", "custom")
    custom = ["application/vnd.verif.t%d" % NAMES.index(n) if n in NAMES else "application/vnd.verif.u%d" % i
              for i, n in enumerate(names)]
    if v == "custom":
        return custom
    groups = ext_groups(names)
    out = list(custom)
    for e, ix in groups.items():
        lst = LISTED.get(e)
        if not lst:
            continue
        for pos, i in enumerate(ix):
            if v == "listed":
                out[i] = lst[0]
            elif v == "listed-differ":
                out[i] = lst[pos % len(lst)] if len(ix) >= 2 else lst[0]
            elif v == "one-unknown":
                out[i] = lst[0] if (pos == 0 or len(ix) < 2) else custom[i]
            elif v == "one-unknown-rev":
                out[i] = lst[0] if (pos == len(ix) - 1 or len(ix) < 2) else custom[i]
            else:
                raise ValueError(v)
    return out


def build(case):
    names = list(case["names"])
    k = len(names)
    style = case.get("style", {})
    edges = [tuple(e) for e in case["edges"]]

    # --- parts: type, payload
    types = part_types(names, style)
    pv = style.get("payload", "fixed")
    xml_parts = set()
    if pv == "xmlrich":
        xml_parts = {i for i, n in enumerate(names) if ext_of(n).lower() == "xml"} or {0}
    payloads = []
    for i in range(k):
        gi = NAMES.index(names[i]) if names[i] in NAMES else 10 + i
        if pv == "fixed":
            payloads.append(fixed_payload(gi))
        elif pv == "empty":
            payloads.append(b"")
        elif pv == "all256":
            payloads.append(bytes(range(256)) + bytes([gi]))
        elif pv == "xmlblob":
            payloads.append((XML_RICH % {"i": gi}).encode("utf-8"))
        elif pv == "xmlrich":
            if i in xml_parts:
                payloads.append((XML_RICH % {"i": gi}).encode("utf-8"))
                types[i] = PML_SLIDE
            else:
                payloads.append(fixed_payload(gi))
        else:
            raise ValueError(pv)

    # --- relationships per source (document order)
    par = style.get("parallel", "none")
    ext = style.get("external", "none")
    tform = style.get("target", "rel")
    iform = style.get("ids", "order")
    model_rels = {}
    members = {}
    for src in [-1] + list(range(k)):
        sname = "/" if src == -1 else names[src]
        lst = []  # (type, mode, target)
        if ext == "all" or (ext == "root" and src == -1) or (ext.startswith("p") and ext[1:].isdigit() and int(ext[1:]) == src):
            lst.append((REL_TYPE_EXT, "External", EXT_TARGET % (src + 1)))
        dup = []
        for n, (s, t) in enumerate(edges):
            if s != src:
                continue
            lst.append((REL_TYPE % t, "Internal", names[t]))
            if par == "all" or par == "e%d" % n:
                dup.append((REL_TYPE % t, "Internal", names[t]))
        lst.extend(dup)
        ids = rel_ids(iform, len(lst))
        model_rels[sname] = [(ids[i],) + lst[i] for i in range(len(lst))]
        if not lst:
            continue
        xml = ['<?xml version="1.0" encoding="UTF-8" standalone="yes"?>\n<Relationships xmlns="%s">' % REL_NS]
        for i, (ty, mode, tgt) in enumerate(lst):
            if mode == "External":
                xml.append('<Relationship Id="%s" Type="%s" Target="%s" TargetMode="External"/>' % (ids[i], ty, _esc(tgt)))
            else:
                xml.append('<Relationship Id="%s" Type="%s" Target="%s"%s/>' % (
                    ids[i], ty, _esc(target_text(tform, sname, tgt)), ' TargetMode="Internal"' if tform == "mode-internal" else ""))
        xml.append("</Relationships>")
        if src == -1:
            rn = "_rels/.rels"
        else:
            j = sname.rfind("/")
            rn = (sname[:j + 1] + "_rels/" + sname[j + 1:] + ".rels")[1:]
        members[rn] = "".join(xml).encode("utf-8")

    # --- content types
    decl = style.get("ctdecl", "override")
    defaults, overrides = [], []
    if decl in ("default", "default-upper"):
        taken = {}
        for i, n in enumerate(names):
            e = ext_of(n).lower()
            if e and e not in taken:
                taken[e] = types[i]
                defaults.append((e.upper() if decl == "default-upper" else e, types[i]))
            elif e and taken[e] == types[i]:
                pass
            else:
                overrides.append((n, types[i]))
    else:
        for i, n in enumerate(names):
            overrides.append((n.swapcase() if decl == "override-case" else n, types[i]))
    if style.get("orphan") == "present":
        overrides.append(("/junk/u.bin", "application/vnd.verif.orphan"))
        defaults.append(("dat", "application/vnd.verif.orphan-dat"))
        members["junk/u.bin"] = b"unreachable part"
        members["junk/_rels/u.bin.rels"] = (
            '<?xml version="1.0" encoding="UTF-8" standalone="yes"?>\n<Relationships xmlns="%s">'
            '<Relationship Id="rId1" Type="%s" Target="%s"/></Relationships>' % (REL_NS, REL_TYPE % 0, names[0])
        ).encode("utf-8")
        members["zz.dat"] = b"unreachable, typed by Default"
    ct = ['<?xml version="1.0" encoding="UTF-8" standalone="yes"?>\n<Types xmlns="%s">' % CT_NS,
          '<Default Extension="rels" ContentType="%s"/>' % CT_RELS]
    for e, t in defaults:
        ct.append('<Default Extension="%s" ContentType="%s"/>' % (e, t))
    for n, t in overrides:
        ct.append('<Override PartName="%s" ContentType="%s"/>' % (_esc(n), t))
    ct.append("</Types>")
    out = {"[Content_Types].xml": "".join(ct).encode("utf-8")}
    out.update(members)
    for i, n in enumerate(names):
        out[n[1:]] = payloads[i]

    model = {
        "parts": {names[i]: {"type": types[i], "payload": payloads[i], "xml": i in xml_parts} for i in range(k)},
        "rels": model_rels,
    }
    return out, model
