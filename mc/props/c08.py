"""C08 — the chart's cached values and its embedded workbook agree cell for cell.

Engine E2 (bounded-exhaustive enumeration), sharing the data-shape enumeration of C07 (mc/props/c07_shapes.py).

Enumerated cases (each: build the chart on the real library, then run the oracle on the FINAL state):
  A  every writable chart type x C07's creation inputs (leaf counts {1,2,3,300} x label kinds, among them
     int_wide / float_wide: numeric labels needing 7..17 significant digits such as 20240131, 1000001,
     1234.5678, 0.12345678, 0.1+0.2; every category forest within the bound; series counts {0,1,2,3,26,27} |
     0..50 x value kinds; number formats; RAGGED category data — per-series point counts {0..5}^ns over 3
     categories and {0,2,4,6}^ns | {0..6}^ns over 4 two-level leaves, so c:val ranges shorter, longer and
     empty next to a c:cat range of fixed size; XY/bubble length patterns; the numeric TYPE alphabet
     {int subclass, float subclass, decimal.Decimal, integral fractions.Fraction} as series values, as category
     labels and as XY/bubble X, Y and size, plus Fraction with a denominator (fraction_ratio: 5/2, -1/3, ..) in the
     value roles only — the library caches the text '5/2', which is not the number in the cell: reported as
     `C08|cell-mismatch|kind=..|cell=unparsable-cache|value-type=fraction_ratio`; categories ASSIGNED (`cd.categories = iterable`: once, twice, over
     other labels, over a hierarchy, after add_category, after the series) instead of added one by one);
  B  column-letter boundaries: category depth 1..4 (ragged chain forests) x series counts {25,26,27} on every
     category chart type; thorough adds {701,702,703} on one type per writer family (columns ZZ/AAA);
  C  `CategoryWorkbookWriter._column_reference` for ALL 16384 columns against an independent block-wise
     base-26 conversion (xlsx_ref.col_letters); the same through the documented `values_ref`/`name_ref` of a
     chart-data object for the boundary columns (and for all columns should the private method disappear);
  D  XY and bubble data with every combination of series lengths in {0,1,2,5}^3 on every XY/bubble type;
  E  text alphabet {'=x','=1+1','http://..','internal:..','@at','12','1e3',' 007','', plain} as a category
     label and as a series name, one chart per text, one chart type per writer family;
  F  datetime labels with a time of day;
  G  replace_data: every ordered pair (thorough: also triples) of the six C07 history shapes from each chart
     type, and every shape (thorough: pairs) applied to each corpus chart of the three chart decks; for
     these the deck is also SAVED and the workbook is taken from the saved package through an independent
     OPC reader (chart part -> package relationship -> embedded part) and must be the replaced blob;
  L  replace_data on a one-series chart of EVERY chart type with c07_shapes.replace_extra_shapes: category types:
     every ragged shape, int_wide / float_wide labels x {1,7} categories, the numeric TYPE alphabet (see A) and
     the category construction paths (106 | 358 shapes); XY/bubble: the numeric type alphabet (10 shapes);
  R  ONE chart-data object used twice with growth in between (c07_shapes.reuse_pairs / apply_delta, documented
     chart-data API only): add_chart(cd); then add_category (flat; a new multi-level top category) |
     add_sub_category | add_series | add_data_point on a short series | `cd.categories = [...]` RE-ASSIGNED (same
     labels, more, fewer, numeric over strings, flat over a hierarchy); XY/bubble: EVERY series position
     (first, middle, last) of 2- and 3-series data grown by two points, or a series added; then
     chart.replace_data(cd) or a second add_chart(cd); one chart type per writer family; the oracle runs after
     EACH use (anything cached at the first use — workbook blob, row offsets — is caught here);
  M  SEVERAL charts in ONE package created from IDENTICAL chart data (the harness's fixed clock, mc/core/clock.py,
     makes the workbook writer's output byte-identical; asserted), then every sequence of replace_data steps over
     (chart index) x {smallest history shape, biggest history shape, the placeholder data again}:
       every chart type: 2 charts, sequences of length 0..1 (7);
       one type per writer family (thorough: every type): 2 charts and 3 charts, length 0..2 (43 + 91);
       each pair of neighbouring category writer families (two DIFFERENT chart types fed the same data): length
       0..1 (thorough 0..2);
     in the final state EVERY chart of the package — replaced last, replaced earlier, untouched — is checked
     against ITS OWN workbook part, in memory and in the saved package (independent OPC reader): 1254 | 4101 cases;
  H  a chart whose part says c:date1904=1 (generated deck patched with the harness's own zip writer and
     re-opened), then replace_data with date categories (2016 dates, representable in both date systems).

Oracle: mc/oracles/xlsx_ref opens `chart.part.chart_workbook.xlsx_part.blob` (zipfile + bare lxml). For every
`c:f` under a `c:ser` of the part XML (bare lxml on `chart.part.blob`) the reference is parsed by an
independent A1 parser and
  (i)  the range must contain exactly c:ptCount cells (one column or one row; for a multi-level cache:
       ptCount rows x one column per c:lvl, leaf level in the right-most column);
  (ii) for every c:pt idx=i the cell at offset i must hold c:v: numbers numerically (relative 1e-14: the
       workbook writer prints 16 significant digits), strings verbatim (a blank/absent cell equals ""),
       dates as serials — the cache's own number is compared with the cell's number, so a chart in the 1904
       date system needs 1904 serials in its workbook; a cell holding a FORMULA is a mismatch;
  (iii) a non-blank cell inside the range with no c:pt for its offset is a mismatch (cache lacks a value the
       workbook has).
Hyperlink cells are only noted (`hyperlink_cells_noted`): the cell still holds the string.

Deviations / readings: an empty series makes the library write an inverted range ($B$2:$B$1); its size is
taken arithmetically (bottom-top+1 = 0) and accepted for ptCount 0 (weaker reading). Operations that RAISE
are C07's business (same enumeration) and are only counted here (`cases_op_raised`). `None` labels are not
enumerated (undocumented). Only `c:f` inside series are checked (the corpus has none elsewhere).
"""

from __future__ import annotations

import io
import itertools
import math
import os

from lxml import etree

from mc.core.parallel import fanout
from mc.core.run import HarnessError
from mc.oracles import opc_ref, xlsx_ref
from mc.props import c07
from mc.props import c07_shapes as S

LEVEL = "exploration"
RULE = ("one evaluation = one chart state (after add_chart or after the last replace_data of the case) whose every "
        "series formula reference is resolved in the embedded workbook and compared with its cache; cases are the "
        "families A-H, L, M and R of the module docstring, each a full product within the stated bound. Non-trivial = the "
        "evaluation compared at least one cached point with a workbook cell; counted per distinct case.")
ASSUMPTIONS = [
    "bounded as C07 (c07_shapes.creation_shapes / history_shapes) plus series counts 25-27 (quick) and 701-703 "
    "(thorough) x category depth 1-4, XY/bubble lengths {0,1,2,5}^3, a 10-text alphabet, 16384 column numbers",
    "numeric category labels: small ints, short floats and 12 numbers of 7..17 significant digits (no exponent forms); "
    "category series lengths {0..5} against 3 categories and {0,2,4,6} (thorough 0..6) against 4 two-level leaves, "
    "through add_chart and through one replace_data",
    "trusted base: zipfile + lxml reading SpreadsheetML (mc/oracles/xlsx_ref.py), hand-written A1 parser",
    "numbers are compared with relative tolerance 1e-14; a blank or absent cell equals the empty string",
    "an inverted range written for an empty series is read as a range of size 0",
    "operations that raise are reported by C07 (same enumeration), here they are only counted",
    "numeric types other than int/float: int and float subclasses, decimal.Decimal in plain notation, fractions.Fraction "
    "with denominator 1 (types whose str() is a plain decimal numeral) in every role; Fraction with a denominator in the "
    "value roles only (central triage decision: a number; its cache text 'n/d' is reported); bool and exponent-notation "
    "Decimals are outside the domain (arguable)",
    "several charts per package (family M): 2-3 charts created from identical data, replace_data sequences of length <=2 "
    "over a 3-shape alphabet; byte-identical workbooks rely on the harness's fixed clock (asserted non-vacuous)",
]

C = c07.C
_bare = etree.XMLParser(remove_blank_text=False, resolve_entities=False)
PKG_REL = "http://schemas.openxmlformats.org/officeDocument/2006/relationships/package"


# ---- oracle -----------------------------------------------------------------------------------------------------

def _local(el):
    return etree.QName(el.tag).localname


def _num_close(a, b):
    return a == b or math.isclose(a, b, rel_tol=1e-14, abs_tol=0.0)


def _compare(cache_kind, vtext, cell):
    """None if the cached text equals the cell, else (cell-kind label, description)."""
    if cell.kind == "formula":
        return "formula", "cell %s holds formula %r (cached result %r), cache has %r" % (cell.ref, cell.formula, cell.value, vtext)
    if cache_kind == "num":
        try:
            want = float(vtext)
        except (TypeError, ValueError):
            return "unparsable-cache", "cached number %r is not a decimal number (cell %s is %s %r)" % (vtext, cell.ref, cell.kind, cell.value)
        if cell.kind != "number":
            return cell.kind, "cache has number %r, cell %s is %s %r" % (vtext, cell.ref, cell.kind, cell.value)
        if not _num_close(want, cell.value):
            return "value", "cache has %r, cell %s holds %r" % (vtext, cell.ref, cell.value)
        return None
    want = vtext or ""
    if cell.kind == "blank":
        return None if want == "" else ("blank", "cache has %r, cell %s is blank" % (want, cell.ref))
    if cell.kind != "string":
        return cell.kind, "cache has string %r, cell %s is %s %r" % (want, cell.ref, cell.kind, cell.value)
    if cell.value != want:
        return "value", "cache has %r, cell %s holds %r" % (want, cell.ref, cell.value)
    return None


def check_refs(root, wb, data_kind, label_kind=None):
    """Returns (violations [(signature tail, what)], stats dict)."""
    out = []
    stats = {"refs": 0, "pts": 0, "hyperlinks": 0, "formula_cells": 0}
    d = root.find(C + "date1904")
    d1904 = "|date1904" if (d is not None and d.get("val", "1") in ("1", "true")) else ""

    def ctx(role):
        extra = "|labels=%s" % label_kind if (role == "cat" and label_kind) else ""
        return "ref=%s|kind=%s%s%s" % (role, data_kind, extra, d1904 if role == "cat" else "")

    for f in root.iter(C + "f"):
        ref_el = f.getparent()
        role_el = ref_el.getparent() if ref_el is not None else None
        ser = role_el.getparent() if role_el is not None else None
        if ser is None or ser.tag != C + "ser":
            continue
        role = _local(role_el)
        cache = next((ch for ch in ref_el if isinstance(ch.tag, str) and _local(ch).endswith("Cache")), None)
        if cache is None:
            continue
        stats["refs"] += 1
        text = f.text or ""
        try:
            sheet_name, c1, r1, c2, r2 = xlsx_ref.parse_ref(text)
            sheet = wb.sheet(sheet_name)
        except xlsx_ref.XlsxError as e:
            out.append(("ref-unresolvable|%s" % ctx(role), "c:f %r: %s" % (text, e)))
            continue
        rows, cols = r2 - r1 + 1, c2 - c1 + 1
        cnt_el = cache.find(C + "ptCount")
        pt_count = int(cnt_el.get("val")) if cnt_el is not None else None
        cache_kind = "num" if _local(cache) == "numCache" else "str"
        multi = _local(cache) == "multiLvlStrCache"
        if rows < 0 or cols < 1:
            out.append(("range-size|%s" % ctx(role), "c:f %r is not a range" % text))
            continue
        if multi:
            lvls = cache.findall(C + "lvl")
            groups = [(c2 - L, lvl.findall(C + "pt")) for L, lvl in enumerate(lvls)]
            if pt_count is not None and (rows != pt_count or cols != len(lvls)):
                out.append(("range-size|%s" % ctx(role), "c:f %r spans %d rows x %d columns, cache announces %d points x %d levels" % (
                    text, rows, cols, pt_count, len(lvls))))
                continue
            column_wise, size = True, rows
        else:
            if rows > 1 and cols > 1:
                out.append(("range-size|%s" % ctx(role), "c:f %r is two-dimensional for a one-dimensional cache" % text))
                continue
            column_wise = cols == 1
            size = rows if column_wise else cols
            if rows == 0:
                size = 0
            groups = [(c1, cache.findall(C + "pt"))]
            if pt_count is not None and size != pt_count:
                out.append(("range-size|%s" % ctx(role), "c:f %r holds %d cells, c:ptCount is %d" % (text, size, pt_count)))
                continue
        for col, pts in groups:
            seen = set()
            for pt in pts:
                try:
                    i = int(pt.get("idx"))
                except (TypeError, ValueError):
                    out.append(("pt-idx|%s" % ctx(role), "c:pt idx %r under %r" % (pt.get("idx"), text)))
                    continue
                seen.add(i)
                v = pt.find(C + "v")
                vtext = v.text if v is not None else None
                if not (0 <= i < size):
                    out.append(("pt-outside-range|%s" % ctx(role), "c:pt idx=%d outside %r (%d cells)" % (i, text, size)))
                    continue
                cell = sheet.cell(col, r1 + i) if (multi or column_wise) else sheet.cell(c1 + i, r1)
                stats["pts"] += 1
                if cell.hyperlink:
                    stats["hyperlinks"] += 1
                if cell.kind == "formula":
                    stats["formula_cells"] += 1
                bad = _compare(cache_kind, vtext, cell)
                if bad is not None:
                    tk = S.text_kind(vtext or "") if cache_kind == "str" else None
                    if tk in ("formula-like", "url-like"):
                        sig = "cell-mismatch|label-kind=%s" % tk
                    else:
                        sig = "cell-mismatch|%s|cell=%s%s" % (ctx(role), bad[0], "|text=%s" % tk if tk and tk != "plain" else "")
                    out.append((sig, "%s c:f %r c:pt idx=%d: %s" % (role, text, i, bad[1])))
            for i in range(size):
                if i in seen:
                    continue
                cell = sheet.cell(col, r1 + i) if (multi or column_wise) else sheet.cell(c1 + i, r1)
                if cell.kind != "blank":
                    out.append(("cell-without-pt|%s" % ctx(role), "%s c:f %r: cell %r has no c:pt idx=%d in the cache" % (role, text, cell, i)))
                    break
    return out, stats


def _typed_tail(tail, spec, kind):
    """Signature tail for data whose values are of a value-only numeric type (c07_shapes.VALUE_ONLY_NUM_TYPES): one
    signature per rule x kind x cell class, the type named in it (the reference role is dropped: X, Y, size and
    values all fail for the same reason); every other shape keeps its tail, so the two never merge."""
    vt = S.value_type(spec)
    if vt not in S.VALUE_ONLY_NUM_TYPES or "cell=unparsable-cache" not in tail:
        return tail
    parts = tail.split("|")
    cell = next((x for x in parts if x.startswith("cell=")), None)
    return "|".join([parts[0], "kind=%s" % kind] + ([cell] if cell else []) + ["value-type=%s" % vt])


def saved_workbook_blob(prs, chart):
    """The embedded workbook of `chart` as found in the SAVED package by an independent OPC reader."""
    buf = io.BytesIO()
    prs.save(buf)
    pkg = opc_ref.read(buf.getvalue())
    name = str(chart.part.partname)
    root = etree.fromstring(pkg.blob(name), _bare)
    ext = root.find(C + "externalData")
    rid = ext.get("{http://schemas.openxmlformats.org/officeDocument/2006/relationships}id") if ext is not None else None
    for rel in pkg.rels(name):
        if rel.id == rid and rel.mode != "External":
            return pkg.blob(rel.target), root
    return None, root


# ---- case execution -------------------------------------------------------------------------------------------------

def _patch_date1904(prs_bytes):
    from mc.drivers.fixtures import write_zip, zip_members
    members = zip_members(prs_bytes)
    n = 0
    for name in list(members):
        if name.startswith("ppt/charts/chart") and name.endswith(".xml"):
            root = etree.fromstring(members[name], _bare)
            d = root.find(C + "date1904")
            if d is None:
                d = etree.Element(C + "date1904")
                root.insert(0, d)
            d.set("val", "1")
            members[name] = etree.tostring(root, xml_declaration=True, encoding="UTF-8", standalone=True)
            n += 1
    if n != 1:
        raise HarnessError("date1904 patch touched %d chart parts" % n)
    return write_zip(members)


def exec_case(case, emit, part=None, slides=None):
    """Build the case's chart, run the oracle on the final state. Returns info dict."""
    from pptx import Presentation
    from pptx.enum.chart import XL_CHART_TYPE
    info = {"raised": False, "pts": 0}
    ops = case["ops"]
    try:
        if case["src"] in ("gen", "gen1904"):
            tname = case["type"]
            if slides is None:
                slides = c07.Slides()
            fresh = bool(case.get("saved")) or case["src"] == "gen1904"
            slide = slides.get(fresh=fresh)
            prs = slides.prs
            try:
                gf = slide.shapes.add_chart(getattr(XL_CHART_TYPE, tname), 0, 0, 3000000, 2000000, S.build(ops[0]))
            except Exception:
                slides.reset()
                raise
            chart = gf.chart
            steps = ops[1:]
            if case["src"] == "gen1904":
                buf = io.BytesIO()
                prs.save(buf)
                prs = Presentation(io.BytesIO(_patch_date1904(buf.getvalue())))
                chart = next(sh.chart for sh in prs.slides[0].shapes if getattr(sh, "has_chart", False))
                slides.reset()
        else:
            prs = Presentation(io.BytesIO(c07._deck_bytes(case["deck"])))
            chart = prs.slides[case["slide"]].shapes[case["shape"]].chart
            tname = chart.chart_type.name
            steps = ops
        for spec in steps:
            chart.replace_data(S.build(spec))
    except HarnessError:
        raise
    except Exception as e:  # noqa: BLE001  -- reported by C07 (same enumeration)
        info["raised"] = True
        if part is not None:
            part.outcome("build", "raised:" + type(e).__name__)
        return info
    if part is not None:
        part.outcome("build", "ok")
    final = ops[-1]
    kind = S.kind_of(tname)
    root = etree.fromstring(chart.part.blob, _bare)
    xpart = chart.part.chart_workbook.xlsx_part
    desc = _desc(case, tname)
    if xpart is None:
        emit("C08|workbook-part|missing", "%s: chart part has no embedded workbook" % desc)
        return info
    blob = xpart.blob
    if case.get("saved"):
        sblob, sroot = saved_workbook_blob(prs, chart)
        if sblob is None:
            emit("C08|workbook-part|not-in-saved-package", "%s: saved package has no workbook related from the chart part" % desc)
            return info
        if sblob != blob:
            emit("C08|workbook-part|saved-blob-differs", "%s: workbook in the saved package differs from xlsx_part.blob" % desc)
        blob, root = sblob, sroot
    try:
        wb = xlsx_ref.read(blob)
    except xlsx_ref.XlsxError as e:
        emit("C08|workbook-part|unreadable", "%s: %s" % (desc, e))
        return info
    viols, stats = check_refs(root, wb, kind, S.label_kind(final) if kind == "cat" else None)
    for tail, what in viols:
        emit("C08|" + _typed_tail(tail, final, kind), "%s: %s" % (desc, what))
    info["pts"] = stats["pts"]
    if part is not None:
        part.count("refs_resolved", stats["refs"])
        part.count("points_compared", stats["pts"])
        part.count("hyperlink_cells_noted", stats["hyperlinks"])
        part.outcome("cells", "hyperlink" if stats["hyperlinks"] else ("formula" if stats["formula_cells"] else "plain"))
        part.outcome("verdict", "agree" if not viols else "mismatch")
    return info


# ---- family R: one chart-data object used twice with a mutation in between ---------------------------------------

REUSE_SECOND = ["replace_data", "add_chart"]


def _check_chart(chart, kind, label_kind):
    root = etree.fromstring(chart.part.blob, _bare)
    xpart = chart.part.chart_workbook.xlsx_part
    if xpart is None:
        return [("workbook-part|missing", "chart part has no embedded workbook")], {"pts": 0, "refs": 0, "hyperlinks": 0, "formula_cells": 0}
    try:
        wb = xlsx_ref.read(xpart.blob)
    except xlsx_ref.XlsxError as e:
        return [("workbook-part|unreadable", str(e))], {"pts": 0, "refs": 0, "hyperlinks": 0, "formula_cells": 0}
    return check_refs(root, wb, kind, label_kind)


def exec_reuse(case, emit, part=None):
    """add_chart(cd); mutate cd; replace_data(cd) or a second add_chart(cd); oracle after EACH use."""
    from pptx import Presentation
    from pptx.enum.chart import XL_CHART_TYPE
    tname, mut, second = case["type"], case["mut"], case["second"]
    kind = S.kind_of(tname)
    lk = S.label_kind(case["after"]) if kind == "cat" else None
    info = {"raised": False, "pts": 0, "uses": 0}
    prs = Presentation()
    slide = prs.slides.add_slide(prs.slide_layouts[6])
    base = case["before"]
    cd = S.build(base)
    head = "%s: cd = %s" % (tname, c07._spec_brief(base))
    try:
        chart = slide.shapes.add_chart(getattr(XL_CHART_TYPE, tname), 0, 0, 3000000, 2000000, cd).chart
        viols, stats = _check_chart(chart, kind, lk)
        info["uses"] += 1
        info["pts"] += stats["pts"]
        for tail, what in viols:
            emit("C08|" + tail, "%s; add_chart(cd): %s" % (head, what))
        S.apply_delta(cd, base, case["after"])
        grown = "cd grown by %s to %s" % (mut, c07._spec_brief(case["after"]))
        if second == "replace_data":
            chart.replace_data(cd)
            step = "add_chart(cd); %s; chart.replace_data(cd)" % grown
        else:
            chart = slide.shapes.add_chart(getattr(XL_CHART_TYPE, tname), 0, 0, 3000000, 2000000, cd).chart
            step = "add_chart(cd); %s; second add_chart(cd)" % grown
    except Exception as e:  # noqa: BLE001  -- raising operations are C07's business
        info["raised"] = True
        if part is not None:
            part.outcome("build", "raised:" + type(e).__name__)
        return info
    viols, stats = _check_chart(chart, kind, lk)
    info["uses"] += 1
    info["pts"] += stats["pts"]
    for tail, what in viols:
        emit("C08|%s|reused-chart-data" % tail, "%s; %s: %s" % (head, step, what))
    if part is not None:
        part.outcome("build", "ok")
        part.count("refs_resolved", stats["refs"])
        part.count("points_compared", info["pts"])
        part.outcome("verdict", "agree" if not viols else "mismatch")
    return info


# ---- family M: several charts built from identical data in ONE package, replace_data on some of them ------------------

MULTI_ROLES = ("untouched", "replaced-earlier", "replaced-last")


def multi_base(kind):
    """The placeholder data every chart of a family-M package is created from."""
    return {"k": "cat", "lab": "str", "n": 3, "ns": 1, "vk": "int"} if kind == "cat" else {"k": kind, "lens": [3], "vk": "int"}


def multi_replacements(kind):
    """Replacement alphabet: the smallest and the biggest C07 history shape, and the placeholder data again."""
    H = S.history_shapes(kind)
    return [H[0], H[4], multi_base(kind)]


def multi_sequences(k, max_len, n_repl=3):
    """Every sequence of (chart index, replacement index) steps of length 0..max_len; (k*n_repl)^l per length."""
    steps = list(itertools.product(range(k), range(n_repl)))
    out = []
    for ln in range(max_len + 1):
        out.extend([list(map(list, q)) for q in itertools.product(steps, repeat=ln)])
    return out


def multi_sequences_count(k, max_len, n_repl=3):
    return sum((k * n_repl) ** ln for ln in range(max_len + 1))


def _multi_sigs(viols, role, kind):
    """Signature tails for one chart of a family-M package. The chart the last replace_data was applied to keeps
    the full tail (a writer defect); for any OTHER chart only the first mismatch is reported, by its class: its
    own data was written correctly earlier (shorter cases show that), so whatever broke it is a side effect."""
    if role == "replaced-last":
        return [("%s|multi-chart|role=%s" % (tail, role), what) for tail, what in viols]
    return [("multi-chart|role=%s|kind=%s|%s" % (role, kind, tail.split("|")[0]), what) for tail, what in viols[:1]]


def exec_multi(case, emit, part=None):
    """k charts (one slide each) created from IDENTICAL chart data in one package — with the harness's fixed
    clock their workbooks are byte-identical —, then the case's replace_data steps, each on one chart. In the
    FINAL state EVERY chart of the package is checked against ITS OWN workbook: in memory, and again in the
    saved package (independent OPC reader: chart part -> package relationship -> embedded part)."""
    from pptx import Presentation
    from pptx.enum.chart import XL_CHART_TYPE
    from mc.core import clock
    clock.install()
    types, steps = case["types"], case["steps"]
    kind = S.kind_of(types[0])
    base, repl = multi_base(kind), multi_replacements(kind)
    info = {"raised": False, "pts": 0, "charts": 0, "identical": False}
    current = [base] * len(types)
    role = ["untouched"] * len(types)
    try:
        prs = Presentation()
        charts = []
        for t in types:
            slide = prs.slides.add_slide(prs.slide_layouts[6])
            charts.append(slide.shapes.add_chart(getattr(XL_CHART_TYPE, t), 0, 0, 3000000, 2000000, S.build(base)).chart)
        blobs = [ch.part.chart_workbook.xlsx_part.blob for ch in charts]
        info["identical"] = all(b == blobs[0] for b in blobs)
        for j, r in steps:
            charts[j].replace_data(S.build(repl[r]))
            current[j] = repl[r]
            role = ["replaced-earlier" if x == "replaced-last" else x for x in role]
            role[j] = "replaced-last"
    except HarnessError:
        raise
    except Exception as e:  # noqa: BLE001  -- raising operations are C07's business
        info["raised"] = True
        if part is not None:
            part.outcome("build", "raised:" + type(e).__name__)
        return info
    head = "package with %d charts (%s) each created from %s%s" % (
        len(types), ", ".join(types), c07._spec_brief(base),
        "".join("; chart %d replace_data %s" % (j, c07._spec_brief(repl[r])) for j, r in steps))
    clean = []
    n_bad = 0
    for i, ch in enumerate(charts):
        lk = S.label_kind(current[i]) if kind == "cat" else None
        viols, stats = _check_chart(ch, kind, lk)
        info["charts"] += 1
        info["pts"] += stats["pts"]
        n_bad += len(viols)
        clean.append(not viols)
        for tail, what in _multi_sigs(viols, role[i], kind):
            emit("C08|%s" % tail, "%s: chart %d (%s): %s" % (head, i, role[i], what))
        if part is not None:
            part.count("refs_resolved", stats["refs"])
            part.count("points_compared", stats["pts"])
    # the same in the saved package
    buf = io.BytesIO()
    prs.save(buf)
    pkg = opc_ref.read(buf.getvalue())
    for i, ch in enumerate(charts):
        name = str(ch.part.partname)
        sroot = etree.fromstring(pkg.blob(name), _bare)
        ext = sroot.find(C + "externalData")
        rid = ext.get("{http://schemas.openxmlformats.org/officeDocument/2006/relationships}id") if ext is not None else None
        target = next((rel.target for rel in pkg.rels(name) if rel.id == rid and rel.mode != "External"), None)
        if target is None:
            n_bad += 1
            emit("C08|workbook-part|not-in-saved-package|multi-chart", "%s: chart %d: saved package has no workbook related from the chart part" % (head, i))
            continue
        try:
            wb = xlsx_ref.read(pkg.blob(target))
        except xlsx_ref.XlsxError as e:
            n_bad += 1
            emit("C08|workbook-part|unreadable|multi-chart", "%s: chart %d in the saved package: %s" % (head, i, e))
            continue
        viols, stats = check_refs(sroot, wb, kind, S.label_kind(current[i]) if kind == "cat" else None)
        info["pts"] += stats["pts"]
        n_bad += len(viols)
        if part is not None:
            part.count("points_compared", stats["pts"])
        if clean[i]:  # else already reported from the in-memory state
            for tail, what in _multi_sigs(viols, role[i], kind):
                emit("C08|%s|saved-package" % tail,
                     "%s: chart %d (%s) in the SAVED package (%s -> %s): %s" % (head, i, role[i], name, target, what))
    if part is not None:
        part.outcome("build", "ok")
        part.outcome("verdict", "agree" if not n_bad else "mismatch")
    return info


def _desc(case, tname):
    head = tname if case["src"] != "corpus" else "%s slide %d shape %d (%s)" % (case["deck"], case["slide"], case["shape"], tname)
    if case["src"] == "gen1904":
        head += " [part patched to c:date1904=1]"
    ops = [c07._spec_brief(s) for s in case["ops"]]
    if case["src"] == "corpus":
        return "%s after replace_data %s" % (head, "; ".join(ops))
    return "%s add_chart %s%s" % (head, ops[0], "".join("; replace_data %s" % o for o in ops[1:]))


# ---- column references (family C) ---------------------------------------------------------------------------------------

def colref_failure(n):
    """Failure message if the library's column name for column n differs from the reference, else None."""
    exp = xlsx_ref.col_letters(n)
    try:
        from pptx.chart.xlsx import CategoryWorkbookWriter
        got = CategoryWorkbookWriter._column_reference(n)
    except (ImportError, AttributeError):
        got = _colref_public([n])[n]
    except Exception as e:  # noqa: BLE001
        return "_column_reference(%d) raised %r, expected %r" % (n, e, exp)
    return None if got == exp else "_column_reference(%d) = %r, expected %r" % (n, got, exp)


def _colref_public(cols):
    """Column letters through the documented chart-data API: series i of a depth-1 category chart lives in
    column i+2; its values_ref is 'Sheet1!$<col>$2:$<col>$1' for an empty series."""
    from pptx.chart.data import CategoryChartData
    cd = CategoryChartData()
    cd.add_category("x")
    series = [cd.add_series("s") for _ in range(max(cols) - 1)] if max(cols) >= 2 else []
    out = {}
    for n in cols:
        if n == 1:
            ref = cd.categories_ref
            out[n] = ref.split("!")[1].split(":")[0].replace("$", "").rstrip("0123456789")
        else:
            ref = cd.values_ref(series[n - 2])
            out[n] = ref.split("!")[1].split(":")[0].replace("$", "").rstrip("0123456789")
    return out


def _colref_sig(n):
    return "C08|column-reference|letters=%d" % len(xlsx_ref.col_letters(n))


# ---- exploration --------------------------------------------------------------------------------------------------------

_CASES = []


def _work(part, chunk):
    slides = c07.Slides()
    for ci in chunk:
        case = _CASES[ci]
        if case["src"] == "colref":
            for n in range(case["lo"], case["hi"] + 1):
                part.count("evaluations")
                part.count("column_references")
                msg = colref_failure(n)
                part.add("nontrivial", ("col", n))
                if msg:
                    part.violation(_colref_sig(n), msg, {"case": {"src": "colref", "lo": n, "hi": n}, "sig": _colref_sig(n)})
            continue

        def emit(sig, what, case=case):
            part.violation(sig, what, {"case": case, "sig": sig})
        if case["src"] == "reuse":
            info = exec_reuse(case, emit, part=part)
            part.count("cases")
            part.count("cases_by_family_" + case["fam"])
            part.count("evaluations", info["uses"])
            if info["raised"]:
                part.count("cases_op_raised")
            elif info["pts"] > 0:
                part.count("nontrivial_count")
            continue
        if case["src"] == "multi":
            info = exec_multi(case, emit, part=part)
            part.count("cases")
            part.count("cases_by_family_" + case["fam"])
            if info["raised"]:
                part.count("cases_op_raised")
                continue
            part.count("evaluations", info["charts"])
            part.count("multi_chart_packages")
            if info["identical"]:
                part.count("multi_chart_packages_created_with_byte_identical_workbooks")
            if info["pts"] > 0:
                part.count("nontrivial_count")
            continue
        info = exec_case(case, emit, part=part, slides=slides)
        part.count("cases")
        part.count("cases_by_family_" + case["fam"])
        if info["raised"]:
            part.count("cases_op_raised")
            continue
        part.count("evaluations")
        if info["pts"] > 0:
            part.count("nontrivial_count")
        if ci % 1499 == 0:
            part.sample({"case": _desc(case, case.get("type", "corpus")), "points_compared": info["pts"]})



def build_cases(thorough, types, corpus):
    cases = []
    sizes = {}

    def add(fam, case):
        case["fam"] = fam
        cases.append(case)
        sizes[fam] = sizes.get(fam, 0) + 1

    cat_types = [t for t in types if S.kind_of(t) == "cat"]
    fam_types = {}
    for t in types:
        fam_types.setdefault(S.family_of(t), t)
    cat_fam_types = [t for t in fam_types.values() if S.kind_of(t) == "cat"]
    # A
    expected_a = 0
    for t in types:
        shapes, size = S.creation_shapes(S.kind_of(t), thorough, allow_zero=not S.needs_series(t))
        if len(shapes) != size:
            raise HarnessError("creation generator size mismatch for %s" % t)
        expected_a += size
        for sp in shapes:
            add("A", {"src": "gen", "type": t, "ops": [sp]})
    # B
    def depth_spec(depth, ns):
        if depth == 1:
            return {"k": "cat", "lab": "str", "n": 3, "ns": ns, "vk": "int"}
        return {"k": "cat", "tree": S.chain_forest(depth), "ns": ns, "vk": "int"}
    for depth in (1, 2, 3, 4):
        for ns in (25, 26, 27):
            for t in cat_types:
                add("B", {"src": "gen", "type": t, "ops": [depth_spec(depth, ns)]})
        if thorough:
            for ns in (701, 702, 703):
                for t in cat_fam_types:
                    add("B", {"src": "gen", "type": t, "ops": [depth_spec(depth, ns)]})
    expected_b = 4 * 3 * len(cat_types) + (4 * 3 * len(cat_fam_types) if thorough else 0)
    # D
    for t in types:
        k = S.kind_of(t)
        if k == "cat":
            continue
        for lens in itertools.product((0, 1, 2, 5), repeat=3):
            add("D", {"src": "gen", "type": t, "ops": [{"k": k, "lens": list(lens), "vk": "mixed"}]})
    expected_d = 64 * len([t for t in types if S.kind_of(t) != "cat"])
    # E
    for t in fam_types.values():
        k = S.kind_of(t)
        for _, text in S.ODD_TEXTS:
            if k == "cat":
                add("E", {"src": "gen", "type": t, "ops": [{"k": "cat", "labels": ["North", text, "South"], "ns": 2, "vk": "int"}]})
                add("E", {"src": "gen", "type": t, "ops": [{"k": "cat", "lab": "str", "n": 2, "ns": 2, "vk": "int", "names": [text, "Second"]}]})
            else:
                add("E", {"src": "gen", "type": t, "ops": [{"k": k, "lens": [2, 1], "vk": "int", "names": [text, "Second"]}]})
    expected_e = len(S.ODD_TEXTS) * (2 * len(cat_fam_types) + (len(fam_types) - len(cat_fam_types)))
    # F
    for t in cat_fam_types:
        for n in (1, 3):
            add("F", {"src": "gen", "type": t, "ops": [{"k": "cat", "lab": "datetime_noon", "n": n, "ns": 1, "vk": "int"}]})
    expected_f = 2 * len(cat_fam_types)
    # G
    hist_len = 3 if thorough else 2
    expected_g = 0
    for t in types:
        H = S.history_shapes(S.kind_of(t))
        initial = [i for i in range(6) if not (S.needs_series(t) and S.series_count(H[i]) == 0)]
        for ln in range(2, hist_len + 1):
            for a in initial:
                for q in itertools.product(range(6), repeat=ln - 1):
                    add("G", {"src": "gen", "type": t, "ops": [H[a]] + [H[i] for i in q], "saved": True})
            expected_g += len(initial) * 6 ** (ln - 1)
    for deck, si, hi, tname in corpus:
        H = S.history_shapes(S.kind_of(tname))
        for ln in range(1, hist_len):
            for q in itertools.product(range(6), repeat=ln):
                add("G", {"src": "corpus", "deck": deck, "slide": si, "shape": hi, "ops": [H[i] for i in q], "saved": True})
            expected_g += 6 ** ln
    # L
    expected_l = 0
    for t in types:
        k = S.kind_of(t)
        xtra, xtra_size = S.replace_extra_shapes(k, thorough)
        if len(xtra) != xtra_size or not xtra:
            raise HarnessError("replace-extra generator for %s produced %d shapes, closed form %d" % (k, len(xtra), xtra_size))
        for sp in xtra:
            add("L", {"src": "gen", "type": t, "ops": [S.replace_base(k), sp]})
        expected_l += xtra_size
    # H
    for t in cat_fam_types:
        # dates representable in the 1904 system (2016-12-27 onwards, midnight)
        for n in (1, 3):
            add("H", {"src": "gen1904", "type": t, "ops": [{"k": "cat", "lab": "str", "n": 2, "ns": 1, "vk": "int"},
                                                            {"k": "cat", "lab": "datetime", "n": n, "ns": 2, "vk": "float"}]})
    expected_h = 2 * len(cat_fam_types)
    # R
    for t in fam_types.values():
        for mut, before, after in S.reuse_pairs(S.kind_of(t)):
            for second in REUSE_SECOND:
                add("R", {"src": "reuse", "type": t, "mut": mut, "before": before, "after": after, "second": second})
    expected_r = 2 * (len(S.reuse_pairs("cat")) * len(cat_fam_types)
                      + len(S.reuse_pairs("xy")) * (len(fam_types) - len(cat_fam_types)))
    # M
    fam_reps = [fam_types[f] for f in sorted(fam_types)]
    cat_reps = [t for t in fam_reps if S.kind_of(t) == "cat"]
    cross = list(zip(cat_reps, cat_reps[1:]))  # two DIFFERENT chart types fed the same data
    deep = types if thorough else fam_reps

    def add_multi(tt, max_len, min_len=0):
        n = 0
        for q in multi_sequences(len(tt), max_len):
            if len(q) >= min_len:
                add("M", {"src": "multi", "types": list(tt), "steps": q})
                n += 1
        return n

    expected_m = 0
    for t in types:
        if t in deep:
            add_multi((t, t), 2)
            add_multi((t, t, t), 2)
            expected_m += multi_sequences_count(2, 2) + multi_sequences_count(3, 2)
        else:
            add_multi((t, t), 1)
            expected_m += multi_sequences_count(2, 1)
    for pair in cross:
        add_multi(pair, 2 if thorough else 1)
        expected_m += multi_sequences_count(2, 2 if thorough else 1)
    expected = {"M": expected_m, "R": expected_r, "L": expected_l, "A": expected_a, "B": expected_b, "D": expected_d, "E": expected_e, "F": expected_f, "G": expected_g, "H": expected_h}
    if sizes != expected:
        raise HarnessError("case generator sizes %r != closed forms %r" % (sizes, expected))
    return cases, expected


def run(ctx):
    global _CASES
    types = c07.writable_types()
    if len(types) < 29:
        raise HarnessError("only %d writable chart types discovered (floor 29)" % len(types))
    for deck in c07.CORPUS_DECKS:
        c07._deck_bytes(deck)
    corpus = c07.corpus_charts(set(types))
    if len(corpus) < 40:
        raise HarnessError("only %d corpus charts (floor 40)" % len(corpus))
    cases, expected = build_cases(ctx.thorough, types, corpus)
    # C: all 16384 column numbers in 64 slices
    step = 256
    for lo in range(1, xlsx_ref.MAX_COL + 1, step):
        cases.append({"src": "colref", "lo": lo, "hi": min(lo + step - 1, xlsx_ref.MAX_COL), "fam": "C"})
    _CASES = cases
    fanout(ctx, _work, ctx.rotate(range(len(cases))))

    # C (public path): boundary columns through the documented chart-data references
    boundary = sorted(set(list(range(1, 60)) + list(range(670, 760)) + [16383, 16384]))
    try:
        pub = _colref_public(boundary)
        for n in boundary:
            ctx.count("evaluations")
            ctx.count("column_references_public_api")
            if pub[n] != xlsx_ref.col_letters(n):
                ctx.violation(_colref_sig(n) + "|public", "values_ref names column %d %r, expected %r" % (n, pub[n], xlsx_ref.col_letters(n)),
                              {"case": {"src": "colref-public", "n": n}, "sig": _colref_sig(n) + "|public"})
    except Exception as e:  # noqa: BLE001
        raise HarnessError("public column-reference probe failed: %r" % (e,))

    ctx.extra["case_families"] = expected
    ctx.extra["writable_chart_types"] = len(types)
    ctx.extra["corpus_charts"] = len(corpus)
    n_cases = sum(expected.values())
    if ctx.counters.get("cases", 0) != n_cases:
        raise HarnessError("cases executed %d != enumerated %d" % (ctx.counters.get("cases", 0), n_cases))
    if ctx.counters.get("column_references", 0) != xlsx_ref.MAX_COL:
        raise HarnessError("column references checked %d != 16384" % ctx.counters.get("column_references", 0))
    if ctx.counters.get("multi_chart_packages", 0) and not ctx.counters.get("multi_chart_packages_created_with_byte_identical_workbooks", 0):
        raise HarnessError("family M: no package whose charts started from byte-identical workbooks (fixed clock not in force?)")
    if ctx.counters.get("points_compared", 0) < 10000:
        raise HarnessError("only %d cached points were compared with cells: vacuous" % ctx.counters.get("points_compared", 0))


def replay(data):
    case = data["case"]
    if case["src"] == "colref":
        return colref_failure(case["lo"])
    if case["src"] == "colref-public":
        n = case["n"]
        got = _colref_public([n])[n]
        return None if got == xlsx_ref.col_letters(n) else "values_ref names column %d %r, expected %r" % (n, got, xlsx_ref.col_letters(n))
    found = []

    def emit(sig, what):
        if sig == data["sig"]:
            found.append(what)
    if case["src"] == "reuse":
        exec_reuse(case, emit)
    elif case["src"] == "multi":
        exec_multi(case, emit)
    else:
        exec_case(case, emit)
    return found[0] if found else None
