"""C17 — connector end points, group extents and freeform bounds obey their geometry.

Explicit-state model checking of three element-local systems (DESIGN 4/C17, engine E1, snapshot mode).
The reference models are deliberately boring: a pair of points, a bounding-box function, and the
bounding box of a list of rounded vertices. Every verdict is taken from public-API readings and from
the XML of the shape serialised and re-parsed with *bare* lxml (no python-pptx element classes).

(1) Connector. Initial states: `shapes.add_connector(STRAIGHT, bx, by, ex, ey)` for every
    (bx,by,ex,ey) in {0..3}^4 (times a scale factor: 1 EMU and 12700 EMU, two separate graphs).
    Operations: `begin_x|begin_y|end_x|end_y := v`, v in {0..4} (times scale). Breadth-first search to
    CLOSURE (no depth bound; the reachable graph is finite) with duplicate detection on the c14n of the
    connector's `a:xfrm` (position, extents, flip flags). A state is snapshotted as a deepcopy of the
    `p:cxnSp` element; each transition is executed on a fresh copy. Oracle: after creation begin/end read
    as created; after each assignment the assigned coordinate reads the new value, the other three read
    what the model says (unchanged), `a:ext` cx/cy (bare lxml) and shape.width/height are >= 0.

(2) Groups. State = a top-level group on a blank slide (a tree of members). Operation = "add a member
    of kind k at grid position (px,py) in {0,1,2}^2 with square size s in {1,3} (x100 EMU) to group g",
    g = any group of the tree addressed by its child-index path. Kinds: autoshape, textbox, picture,
    connector (drawn top-right -> bottom-left so it carries flipH), chart graphic frame, OLE graphic
    frame, freeform (`group.shapes.build_freeform`), subgroup-new (`add_group_shape()` then `add_shape`
    into it, one atomic operation so that no empty group is ever observed), subgroup-of
    (`add_group_shape([shape])` with a shape first created on the slide). add_table/add_movie do not
    exist on GroupShapes. Different histories give different trees (members are appended in order), so
    the state graph is a tree and is walked depth-first; the top group element is snapshotted with
    deepcopy and restored after each leaf transition.
    Bounds (DEVIATION from DESIGN, whose full product 162^d is 10^9 at depth 4): FULL alphabet
    (9 kinds x 9 positions x 2 sizes = 162 operations per group) for all histories of length <= 2; for
    longer histories the LAST operation ranges over the full alphabet and every group of the tree, the
    prefix operations over a reduced alphabet: quick = length 3, prefix kinds {autoshape, subgroup-new,
    subgroup-of} x geometries {centre cell size 1, top-left cell size 3, bottom-right cell size 1}
    (nesting depth reached: 4, counting the top-level group as 1); thorough = length 3 with prefix
    kinds = all 9 x the 3 geometries, and length 4 with prefix kinds {autoshape, subgroup-new} x the 3
    geometries (nesting depth reached: 5).
    Oracle, after EVERY addition and for EVERY non-empty group of the tree (so in particular all
    groups from the modified one up to the top): `a:off/a:ext` and `a:chOff/a:chExt` (bare lxml) and
    left/top/width/height (API, groups on the path) equal the bounding box of the group's member
    shapes' observed (x, y, cx, cy); sub-groups count with their own off/ext, which are themselves
    checked, hence "recursively". Empty groups are skipped.
    DEGENERATE members: the last-operation alphabet additionally has, for kinds {autoshape, textbox,
    connector, subgroup-new}, every grid position x sizes {(3,0) horizontal rule, (0,3) vertical rule,
    (0,0) point} (autoshape/textbox with width or height 0; connector from (x+w,y) to (x,y+h); a sub-group
    whose single member is degenerate) = 108 more operations per group (270 in all); prefix sets with a
    horizontal rule at (2,2) as an earlier member: quick (dg), thorough also (add, dg) and (dg, add) over
    {autoshape, subgroup-new} x 3 geometries. The bounding-box model treats a degenerate member like any
    other box; only a sub-group without members is skipped.
    RESIZE (prefix-only operation): `g.left, g.top, g.width, g.height = v` through the public GroupShape
    setters, g = any non-empty group, v in {(50,70,900,700), (150,250,50,30)}. It produces the states in
    which a:off/a:ext differ from a:chOff/a:chExt (as in files where PowerPoint scaled a group). Model:
    the group keeps the assigned position/size until the next addition into it or into a descendant;
    no verdict is taken on the setters themselves (not part of C17; only vacuity bookkeeping). Prefix
    sets with a resize: quick (add over 9 kinds x 3 geometries, resize); thorough (add over the full
    alphabet, resize), (add, add, resize) and (add, resize, add) over {autoshape, subgroup-new} x 3
    geometries; each followed by the full addition alphabet on every group, which includes additions
    lying inside the member bounding box (child extents unchanged) of the resized group, of its
    descendants and of unrelated groups.
    Obligation per addition: the group that received the member and ALL its ancestors must equal their
    members' bounding box afterwards, whatever their state before (resized, stale). A group off that
    path is reported only if it was consistent before the step and is not after it (a group resized
    earlier, or broken by an earlier and already reported step, is not re-reported). Per step only the
    lowest wrong group on the path is reported. For connector and freeform members the
    observed member box must equal the requested one (those two are covered by the other clauses of the
    statement); for the other kinds the observed box is simply used.

(3) Freeform. pens: start in {-2,0,1.5}^2; first contour = vertex list (with repeats) over
    {-2,-0.5,0,1,2.5}^2 of length <= 2 (quick) / <= 3 (thorough); optional second contour
    `move_to(m)` + vertex list of length <= 1, after a first contour of length <= 1 over {-2,-0.5,2.5}^2
    (quick: m and the second vertex also over {-2,-0.5,2.5}^2; thorough: over all 25 points);
    close/open (the same flag for both contours); scale in
    {1, 2.5, (1,3), (0.5,2)}; `convert_to_shape(origin)` for origin in {(0,0),(7,-3)} (both origins are
    converted from the same builder, as its docstring allows, i.e. "convert twice without drawing in
    between").
    BUILDER REUSE family ("may be called more than once", with drawing in between): start, S1 of 0 or 1
    vertex over {-2,-0.5,2.5}^2, `convert_to_shape((0,0))`, then S2 = 1 or 2 more pen positions, either
    continuing with add_line_segments or opening a new contour with move_to (quick: over {-2,-0.5,2.5}^2
    and scales {1,(0.5,2)}; thorough: over all 25 points and all 4 scales), `convert_to_shape((7,-3))` on
    the SAME builder. S2 includes positions that extend the bounding box to the left/top and ones that do
    not. Both shapes must satisfy the oracle with respect to the vertices drawn up to their conversion.
    Oracle (geom_ref): left/top/width/height (API and bare `a:off/a:ext`) equal the scaled bounding box
    of the vertices (start and move-to points included) offset by the origin. Weaker reading: the
    documented "rounded to the nearest integer before use" is honoured with ANY consistent tie rule
    (half-even, half-up, half-down, half-away, half-to-zero) or no rounding at all, and each of the four
    numbers may be off by 1 EMU. Every `a:pt` x/y lies in 0..a:path@w / 0..@h.

Signatures:  C17|connector|<rule>|op=<coord>|from=<lt|eq|gt>,to=<lt|eq|gt>,flip=<0|1>
             C17|group-extents|member-kind=<k>|depth=<d>      (d = number of levels ABOVE the modified
             group at which the lowest wrong group sits: 0 = the group that received the member; this
             makes one signature per defect rather than one per nesting depth; `off-path` for a group
             that is not an ancestor); suffix `|after-resize` when a group on the path had been
             moved/resized through the setters, `|degenerate-member` when the added member has zero
             width and/or height          C17|group-child-extents|... (only chOff/chExt wrong)
             C17|freeform|<rule>|<class>[|builder-reuse]   (suffix: second shape of a reused builder)
"""

from __future__ import annotations

import copy
import hashlib
import io
import itertools
import math

from lxml import etree

from mc.core.parallel import fanout
from mc.core.run import HarnessError

LEVEL = "model_checking"
RULE = ("connector: every reachable a:xfrm state (BFS to closure from all 4^4 creations, 20 assignments "
        "per state, two EMU scales), non-trivial = assignment whose new value changes the order relation "
        "to the other end point on that axis (lands on / crosses over / leaves it); groups: every history "
        "of member additions within the stated alphabet (distinct histories = distinct trees), "
        "non-trivial = addition that changes the expected bounding box of at least one group; freeform: "
        "every pen in the stated alphabet, non-trivial = bounding box not anchored at the start point or "
        "a tie-valued fractional coordinate present; all counted distinct by construction")
ASSUMPTIONS = [
    "alphabet-bounded: coordinates, sizes, kinds, scales and history lengths as listed in the module docstring",
    "groups: histories longer than 2 use a reduced alphabet for all but the last operation (see docstring)",
    "snapshot mode: copy.deepcopy of a p:cxnSp / p:grpSp subtree is a faithful snapshot of the state "
    "(proxies are stateless views over the XML)",
    "connector dedup key = c14n of a:xfrm: the setters read and write nothing else",
    "freeform: tie-rounding rule unspecified by the statement -> any consistent rule accepted, +-1 EMU",
    "bare lxml re-parse of the serialised element is the XML observation",
]

NS = {"a": "http://schemas.openxmlformats.org/drawingml/2006/main",
      "p": "http://schemas.openxmlformats.org/presentationml/2006/main"}
A = "{%s}" % NS["a"]
P = "{%s}" % NS["p"]


def _bare(el):
    """Serialise a python-pptx element and re-parse with the default (bare) lxml parser."""
    return etree.fromstring(etree.tostring(el))


def _blank_slide():
    from pptx import Presentation
    prs = Presentation()
    return prs, prs.slides.add_slide(prs.slide_layouts[6])


def _rel(a, b):
    return "lt" if a < b else ("gt" if a > b else "eq")


# =====================================================================================================
# (1) connector
# =====================================================================================================

COORDS = ("begin_x", "begin_y", "end_x", "end_y")
CONN_SCALES = (1, 12700)


def _conn_obs(conn):
    """(getter readings, (cx, cy) bare, (width, height) API, flips, c14n of xfrm)."""
    got = tuple(int(getattr(conn, n)) for n in COORDS)
    bare = _bare(conn.element)
    xfrm = bare.find(P + "spPr/" + A + "xfrm")
    ext = xfrm.find(A + "ext")
    cx, cy = int(ext.get("cx")), int(ext.get("cy"))
    flips = (xfrm.get("flipH") in ("1", "true"), xfrm.get("flipV") in ("1", "true"))
    key = etree.tostring(xfrm, method="c14n")
    return got, (cx, cy), (int(conn.width), int(conn.height)), flips, key


def _conn_check(obs, model, op):
    """Compare one observation with the model. op None (creation) or (name, v, model_before, flips_before).

    Returns list of (rule, class, message)."""
    got, ext, wh, _flips, _key = obs
    out = []
    if op is None:
        if got != tuple(model):
            cls = "x=%s,y=%s" % (_rel(model[0], model[2]), _rel(model[1], model[3]))
            out.append(("created-readback", "create", cls,
                        "created with (bx,by,ex,ey)=%r, reads %r" % (tuple(model), got)))
        name, cls = "create", "x=%s,y=%s" % (_rel(model[0], model[2]), _rel(model[1], model[3]))
    else:
        name, v, before, flips_before = op
        i = COORDS.index(name)
        other = before[(i + 2) % 4]
        flip = flips_before[i % 2]
        cls = "from=%s,to=%s,flip=%d" % (_rel(before[i], other), _rel(v, other), int(flip))
        if got[i] != v:
            out.append(("assigned-coordinate", name, cls,
                        "%s := %d on %r reads %d" % (name, v, tuple(before), got[i])))
        changed = [COORDS[j] for j in range(4) if j != i and got[j] != before[j]]
        if changed:
            out.append(("other-coordinates-changed", name, cls,
                        "%s := %d on %r changed %s: now %r" % (name, v, tuple(before), ",".join(changed), got)))
    if ext[0] < 0 or ext[1] < 0 or wh[0] < 0 or wh[1] < 0:
        out.append(("negative-extent", name, cls,
                    "a:ext (cx,cy)=%r, shape (width,height)=%r after %s on %r" % (ext, wh, name, tuple(model))))
    return out


def _conn_sig(rule, name, cls):
    return "C17|connector|%s|op=%s|%s" % (rule, name, cls)


_CONN_FRONTIER = []   # (element, model, flips, scale, create, assigns) -- inherited by forked workers
_CONN_SEEN = set()    # (scale, xfrm c14n) known before the current level
CONN_STATE_CAP = 5000


def _conn_expand(part, chunk):
    """Execute all 20 assignments on each frontier state of the chunk (on a deepcopy of its element)."""
    _prs, slide = _blank_slide()
    shapes = slide.shapes
    spTree = shapes.element
    for idx in chunk:
        stored, model, flips, scale, create, assigns = _CONN_FRONTIER[idx]
        for i, name in enumerate(COORDS):
            for u in range(5):
                v = u * scale
                el = copy.deepcopy(stored)
                spTree.append(el)
                conn = shapes[len(shapes) - 1]
                new_assigns = assigns + ((name, u),)
                hist = {"sys": "connector", "scale": scale, "create": list(create),
                        "assigns": [list(x) for x in new_assigns]}
                try:
                    setattr(conn, name, v)
                    obs = _conn_obs(conn)
                except Exception as e:  # noqa
                    part.violation(_conn_sig("raised", name, type(e).__name__),
                                   "%s := %d on %r raised %r" % (name, v, model, e), hist)
                    spTree.remove(el)
                    continue
                part.count("transitions")
                part.count("traces_validated_against_impl")
                part.count("conn_assignments")
                new_model = list(model)
                new_model[i] = v
                other = model[(i + 2) % 4]
                r0, r1 = _rel(model[i], other), _rel(v, other)
                if r0 != r1:
                    part.count("nontrivial_count")
                part.outcome("connector." + name, "%s->%s,flip=%d" % (r0, r1, int(flips[i % 2])))
                for rule, nm, cls, msg in _conn_check(obs, new_model, (name, v, model, flips)):
                    part.violation(_conn_sig(rule, nm, cls), msg, hist)
                if (scale, obs[4]) not in _CONN_SEEN:
                    part.add("conn_succ", (scale, obs[4], create, new_assigns))
                spTree.remove(el)


def _conn_materialise(shapes, scale, create, assigns):
    """Rebuild a state from its history with the public API only; returns (connector, observation)."""
    from pptx.enum.shapes import MSO_CONNECTOR
    conn = shapes.add_connector(MSO_CONNECTOR.STRAIGHT, *[c * scale for c in create])
    for name, u in assigns:
        setattr(conn, name, u * scale)
    return conn, _conn_obs(conn)


def _conn_closure(ctx):
    """Level-synchronous BFS to closure over both scales; the parent owns the seen set, each level's
    frontier is expanded by forked workers which inherit the frontier elements."""
    global _CONN_FRONTIER, _CONN_SEEN
    _prs, slide = _blank_slide()
    shapes = slide.shapes
    spTree = shapes.element
    _CONN_SEEN = set()
    frontier = []
    for scale in CONN_SCALES:
        for pts in ctx.rotate(list(itertools.product(range(4), repeat=4))):
            model = [c * scale for c in pts]
            rp = {"sys": "connector", "scale": scale, "create": list(pts), "assigns": []}
            try:
                conn, obs = _conn_materialise(shapes, scale, pts, ())
            except Exception as e:  # noqa
                ctx.violation(_conn_sig("raised", "create", type(e).__name__),
                              "add_connector%r raised %r" % (tuple(model), e), rp)
                continue
            ctx.count("transitions")
            ctx.count("traces_validated_against_impl")
            ctx.count("conn_creations")
            for rule, name, cls, msg in _conn_check(obs, model, None):
                ctx.violation(_conn_sig(rule, name, cls), msg, rp)
            ctx.outcome("connector.create", "x=%s,y=%s" % (_rel(pts[0], pts[2]), _rel(pts[1], pts[3])))
            if (scale, obs[4]) not in _CONN_SEEN:
                _CONN_SEEN.add((scale, obs[4]))
                frontier.append((copy.deepcopy(conn.element), tuple(obs[0]), obs[3], scale, tuple(pts), ()))
            spTree.remove(conn.element)
    levels = 0
    sample = None
    while frontier:
        levels += 1
        _CONN_FRONTIER = frontier
        fanout(ctx, _conn_expand, ctx.rotate(range(len(frontier))))
        succ = ctx.sets.pop("conn_succ", set())
        best = {}
        for scale, key, create, assigns in succ:
            k = (scale, key)
            if k in _CONN_SEEN:
                continue
            cand = (len(assigns), assigns, create)
            if k not in best or cand < best[k]:
                best[k] = cand
        frontier = []
        for k in sorted(best):
            _n, assigns, create = best[k]
            conn, obs = _conn_materialise(shapes, k[0], create, assigns)
            if obs[4] != k[1]:
                raise HarnessError("connector history %r %r does not rebuild the state it reached" % (create, assigns))
            _CONN_SEEN.add(k)
            # the state's model = what the implementation reports for it (the state IS the impl state)
            frontier.append((copy.deepcopy(conn.element), tuple(obs[0]), obs[3], k[0], create, assigns))
            spTree.remove(conn.element)
            if sample is None and len(assigns) >= 2:
                sample = {"sys": "connector", "scale": k[0], "create": list(create),
                          "assigns": [list(a) for a in assigns], "reads": list(obs[0])}
        if len(_CONN_SEEN) > CONN_STATE_CAP * len(CONN_SCALES):
            ctx.cap("connector closure stopped at %d states (expected <= 900 per scale)" % len(_CONN_SEEN))
            break
    _CONN_FRONTIER = []
    if sample:
        ctx.sample(sample)
    per_scale = {}
    for scale, key in _CONN_SEEN:
        ctx.add("states", ("conn", scale, hashlib.sha1(key).hexdigest()[:16]))
        per_scale[scale] = per_scale.get(scale, 0) + 1
    return per_scale, levels


def _conn_replay(data):
    from pptx.enum.shapes import MSO_CONNECTOR
    scale = data["scale"]
    _prs, slide = _blank_slide()
    model = [c * scale for c in data["create"]]
    try:
        conn = slide.shapes.add_connector(MSO_CONNECTOR.STRAIGHT, *model)
        obs = _conn_obs(conn)
    except Exception as e:  # noqa
        return "add_connector%r raised %r" % (tuple(model), e)
    bad = _conn_check(obs, model, None)
    if bad:
        return "; ".join(b[3] for b in bad)
    for name, v in data["assigns"]:
        v = v * scale
        before, flips = tuple(obs[0]), obs[3]
        try:
            setattr(conn, name, v)
            obs = _conn_obs(conn)
        except Exception as e:  # noqa
            return "%s := %d on %r raised %r" % (name, v, before, e)
        new_model = list(before)
        new_model[COORDS.index(name)] = v
        bad = _conn_check(obs, new_model, (name, v, before, flips))
        if bad:
            return "; ".join(b[3] for b in bad)
    return None


# =====================================================================================================
# (2) groups
# =====================================================================================================

U = 100  # EMU per grid unit
KINDS = ("autoshape", "textbox", "picture", "connector", "chart", "ole", "freeform",
         "subgroup-new", "subgroup-of")
GEOMS_FULL = tuple((px, py, s) for px in range(3) for py in range(3) for s in (1, 3))
# degenerate members: size 0 in exactly one axis (horizontal / vertical rule) or in both (a point); the
# size slot of an operation is then a (w, h) pair instead of a single number. A degenerate member is a box
# like any other for the bounding-box model (only a sub-group WITHOUT members is unspecified).
SIZES_DEGEN = ((3, 0), (0, 3), (0, 0))
GEOMS_DEGEN = tuple((px, py, wh) for px in range(3) for py in range(3) for wh in SIZES_DEGEN)
KINDS_DEGEN = ("autoshape", "textbox", "connector", "subgroup-new")
GEOMS_DEGEN_PREFIX = ((2, 2, (3, 0)),)
KINDS_DEGEN_PREFIX = ("autoshape", "connector", "subgroup-new")
LEAF_OPS_PER_GROUP = len(KINDS) * len(GEOMS_FULL) + len(KINDS_DEGEN) * len(GEOMS_DEGEN)


def _wh(s):
    """(width, height) in EMU of a size slot: a number (square) or a (w, h) pair."""
    if isinstance(s, (tuple, list)):
        return s[0] * U, s[1] * U
    return s * U, s * U


def _degenerate(s):
    return isinstance(s, (tuple, list)) and (s[0] == 0 or s[1] == 0)
GEOMS_PREFIX = ((1, 1, 1), (0, 0, 3), (2, 2, 1))
KINDS_PREFIX = ("autoshape", "subgroup-new", "subgroup-of")
KINDS_PREFIX4 = ("autoshape", "subgroup-new")
# (left, top, width, height) assigned through GroupShape.left/top/width/height; never equal to a member
# bounding box (those are multiples of 100): V0 stretches the group over its members, V1 shrinks/moves it
RESIZES = ((50, 70, 900, 700), (150, 250, 50, 30))
SHAPE_TAGS = (P + "sp", P + "pic", P + "cxnSp", P + "graphicFrame", P + "grpSp")

_IMG = None
_CHART_DATA = None


def _img():
    global _IMG
    if _IMG is None:
        from mc.drivers import fixtures
        _IMG = fixtures.make_image("PNG", (4, 3))
    return io.BytesIO(_IMG)


def _chart_data():
    global _CHART_DATA
    if _CHART_DATA is None:
        from pptx.chart.data import CategoryChartData
        cd = CategoryChartData()
        cd.categories = ["a"]
        cd.add_series("s", [1])
        _CHART_DATA = cd
    return _CHART_DATA


# ---- reference model: a tree of boxes ---------------------------------------------------------------

def _m_new():
    return {"children": []}


def _m_group(model, path):
    g = model
    for i in path:
        g = g["children"][i]
    return g


def _m_groups(model, path=()):
    """All group paths of the model, pre-order."""
    out = [tuple(path)]
    for i, ch in enumerate(model["children"]):
        if "children" in ch:
            out.extend(_m_groups(ch, tuple(path) + (i,)))
    return out


def _m_apply(model, op):
    """Apply op to the model; return the path of the group that directly received a member (for a
    resize: the path of the resized group).

    A resize through the public setters gives the group its OWN position/size ("own"); an addition into a
    group re-establishes "position/size = bounding box of the members" for that group and for every
    ancestor, so "own" is cleared along the whole path."""
    kind, px, py, s, path = op
    g = _m_group(model, path)
    if kind == "resize":
        g["own"] = RESIZES[px]
        return tuple(path)
    for k in range(len(path) + 1):
        _m_group(model, path[:k]).pop("own", None)
    box = (px * U, py * U) + _wh(s)
    if kind.startswith("subgroup"):
        g["children"].append({"k": kind, "children": [{"k": "autoshape", "box": box}]})
        return tuple(path) + (len(g["children"]) - 1,)
    g["children"].append({"k": kind, "box": box})
    return tuple(path)


def _m_child_bbox(node):
    """Bounding box of a group node's members (sub-groups count with their own box if resized)."""
    boxes = [b for b in (_m_bbox(c) for c in node["children"]) if b is not None]
    if not boxes:
        return None
    return _bbox(boxes)


def _m_bbox(node):
    """Position/size (x, y, cx, cy) of a model node; None for an empty group."""
    if "box" in node:
        return node["box"]
    if "own" in node:
        return node["own"]
    return _m_child_bbox(node)


def _m_canon(node):
    if "box" in node:
        return (node["k"], node["box"])
    return (node.get("k"), node.get("own"), tuple(_m_canon(c) for c in node["children"]))


def _bbox(boxes):
    x0 = min(b[0] for b in boxes)
    y0 = min(b[1] for b in boxes)
    x1 = max(b[0] + b[2] for b in boxes)
    y1 = max(b[1] + b[3] for b in boxes)
    return (x0, y0, x1 - x0, y1 - y0)


# ---- implementation driver --------------------------------------------------------------------------

_RID = None


def _g_canon(bare):
    """State key of a group tree: its serialisation with relationship ids blanked (chart/OLE parts get a
    fresh rId per addition; the rId is not part of the geometry state)."""
    global _RID
    if _RID is None:
        import re
        _RID = re.compile(rb'"rId[0-9]+"')
    return hashlib.sha1(_RID.sub(b'"rId"', etree.tostring(bare))).hexdigest()[:16]


def _g_apply(slide, top, op):
    from pptx.enum.chart import XL_CHART_TYPE
    from pptx.enum.shapes import MSO_CONNECTOR, MSO_SHAPE
    kind, px, py, s, path = op
    g = top
    for i in path:
        g = g.shapes[i]
    if kind == "resize":
        g.left, g.top, g.width, g.height = RESIZES[px]
        return
    x, y = px * U, py * U
    w, h = _wh(s)
    sh = g.shapes
    if kind == "autoshape":
        sh.add_shape(MSO_SHAPE.RECTANGLE, x, y, w, h)
    elif kind == "textbox":
        sh.add_textbox(x, y, w, h)
    elif kind == "picture":
        sh.add_picture(_img(), x, y, w, h)
    elif kind == "connector":
        # top-right -> bottom-left (flipH); h == 0: a horizontal rule, w == 0: a vertical rule, both: a point
        sh.add_connector(MSO_CONNECTOR.STRAIGHT, x + w, y, x, y + h)
    elif kind == "chart":
        sh.add_chart(XL_CHART_TYPE.PIE, x, y, w, h, _chart_data())
    elif kind == "ole":
        sh.add_ole_object(io.BytesIO(b"c17"), "C17.Object", x, y, w, h, icon_file=_img())
    elif kind == "freeform":
        b = sh.build_freeform(0, 0, 1.0)
        b.add_line_segments([(w, 0), (w, h)], close=True)
        b.convert_to_shape(x, y)
    elif kind == "subgroup-new":
        sub = sh.add_group_shape()
        sub.shapes.add_shape(MSO_SHAPE.RECTANGLE, x, y, w, h)
    elif kind == "subgroup-of":
        loose = slide.shapes.add_shape(MSO_SHAPE.RECTANGLE, x, y, w, h)
        sh.add_group_shape([loose])
    else:
        raise ValueError(kind)


def _xfrm_box(xfrm):
    if xfrm is None:
        return None
    off, ext = xfrm.find(A + "off"), xfrm.find(A + "ext")
    if off is None or ext is None:
        return None
    return (int(off.get("x")), int(off.get("y")), int(ext.get("cx")), int(ext.get("cy")))


def _g_obs(el):
    """Observed tree from a bare p:grpSp element."""
    if el.tag == P + "grpSp":
        xfrm = el.find(P + "grpSpPr/" + A + "xfrm")
        node = {"box": _xfrm_box(xfrm), "chbox": None, "children": []}
        if xfrm is not None:
            co, ce = xfrm.find(A + "chOff"), xfrm.find(A + "chExt")
            if co is not None and ce is not None:
                node["chbox"] = (int(co.get("x")), int(co.get("y")), int(ce.get("cx")), int(ce.get("cy")))
        for ch in el:
            if ch.tag in SHAPE_TAGS:
                node["children"].append(_g_obs(ch))
        return node
    if el.tag == P + "graphicFrame":
        return {"box": _xfrm_box(el.find(P + "xfrm")), "tag": "graphicFrame"}
    return {"box": _xfrm_box(el.find(P + "spPr/" + A + "xfrm")), "tag": etree.QName(el).localname}


def _g_inconsistent(obs, path=()):
    """Paths of all non-empty groups of an observed tree whose off/ext or chOff/chExt differ from the
    bounding box of their members."""
    out = set()
    if "children" not in obs:
        return out
    kids = obs["children"]
    boxes = [k["box"] for k in kids if not ("children" in k and not k["children"])]
    if boxes and all(b is not None for b in boxes):
        exp = _bbox(boxes)
        if obs["box"] != exp or obs["chbox"] != exp:
            out.add(tuple(path))
    for i, k in enumerate(kids):
        out |= _g_inconsistent(k, tuple(path) + (i,))
    return out


def _g_check(top, bare, model, op, modified, prev_bad=frozenset(), after_resize=False):
    """All group invariants after the ADDITION `op`. Returns (list of (signature, message), paths of all
    groups that are now inconsistent with their members).

    Obligation: the group that received the member and every ancestor of it (the "path") must equal the
    bounding box of their members after the addition, whatever their state was before (in particular if
    one of them had been moved/resized through the public setters, or was stale). A group OFF that path
    carries no new obligation at this step: if it was already inconsistent before the step (path in
    `prev_bad`: resized through the setters, or broken by an earlier, already reported step) it is not
    reported again; if it was consistent before and is not now, it is reported."""
    kind = op[0]
    obs = _g_obs(bare)
    out = []
    wrong = []   # (d, signature, message) of groups whose extents differ from their members' bbox
    bad_now = set()
    sfx = ("|degenerate-member" if _degenerate(op[3]) else "") + ("|after-resize" if after_resize else "")

    def depth_of(path):
        if tuple(modified[:len(path)]) == tuple(path):
            return str(len(modified) - len(path))
        return "off-path"

    def walk(o, m, path):
        if "children" not in o:
            return
        if ("children" not in m) or len(o["children"]) != len(m["children"]):
            out.append(("C17|group-structure|member-kind=%s" % kind,
                        "group at path %r has %d member elements, model has %s" % (
                            path, len(o["children"]), len(m.get("children", ())) if "children" in m else "a leaf")))
            return
        kids = o["children"]
        if kids:
            if any(k["box"] is None for k in kids):
                out.append(("C17|group-member-box|missing-xfrm|member-kind=%s" % kind,
                            "a member of group %r has no readable xfrm" % (path,)))
            elif all(("children" in k and not k["children"]) for k in kids):
                pass  # only empty sub-groups: unspecified
            else:
                boxes = [k["box"] for k in kids if not ("children" in k and not k["children"])]
                exp = _bbox(boxes)
                d = depth_of(path)
                if o["box"] != exp or o["chbox"] != exp:
                    bad_now.add(tuple(path))
                if d == "off-path" and tuple(path) in prev_bad:
                    pass
                elif o["box"] != exp:
                    wrong.append((d, "C17|group-extents|member-kind=%s|depth=%s%s" % (kind, d, sfx),
                                "after adding %s at %r to group %r%s: group %r has off/ext %r, bounding box of its "
                                "%d members is %r" % (kind, tuple(op[1:4]), tuple(op[4]),
                                                      " (a group on the path had been moved/resized through "
                                                      "left/top/width/height)" if after_resize else "",
                                                      path, o["box"], len(boxes), exp)))
                elif o["chbox"] != exp:
                    wrong.append((d, "C17|group-child-extents|member-kind=%s|depth=%s%s" % (kind, d, sfx),
                                "after adding %s to group %r: group %r has chOff/chExt %r, bounding box of its "
                                "members is %r" % (kind, tuple(op[4]), path, o["chbox"], exp)))
        for i, k in enumerate(kids):
            walk(k, m["children"][i], path + (i,))

    walk(obs, model, ())
    if wrong:
        # one report per step: the LOWEST wrong group on the path modified-group -> top (smallest d); a
        # wrong group off that path is reported only if every group on the path is right
        on_path = sorted((int(w[0]), w[1], w[2]) for w in wrong if w[0] != "off-path")
        pick = on_path[0] if on_path else sorted(wrong, key=lambda w: w[1])[0]
        out.append((pick[1], pick[2]))

    # API readings of the groups on the path from the modified group up to the top
    if not out:
        g, o = top, obs
        chain = [((), g, o)]
        for n, i in enumerate(modified):
            g = g.shapes[i]
            o = o["children"][i]
            chain.append((tuple(modified[:n + 1]), g, o))
        for path, g, o in chain:
            if not o["children"]:
                continue
            api = (int(g.left), int(g.top), int(g.width), int(g.height))
            if api != o["box"]:
                out.append(("C17|group-extents|api-differs-from-xml|member-kind=%s" % kind,
                            "group %r: left/top/width/height %r but a:off/a:ext %r" % (path, api, o["box"])))

    # connector / freeform members: observed member box == requested (binds the model to the impl)
    if kind in ("connector", "freeform") and not any(s.startswith("C17|group-structure") for s, _ in out):
        o = obs
        for i in modified:
            o = o["children"][i]
        want = _m_group(model, modified)["children"][-1]["box"]
        got = o["children"][-1]["box"] if o["children"] else None
        if got != want:
            out.append(("C17|group-member-box|member-kind=%s" % kind,
                        "%s requested with box %r in group %r has xfrm %r" % (kind, want, tuple(modified), got)))
    return out, bad_now


def _js(s):
    return list(s) if isinstance(s, tuple) else s


def _g_step(part, slide, top, model, op, hist, prev_bad):
    """Apply op to implementation and model, check, count. Returns (bare tree or None, path of the
    group that received the member, paths of groups now inconsistent)."""
    kind = op[0]
    replay = {"sys": "group", "ops": [[o[0], o[1], o[2], _js(o[3]), list(o[4])] for o in hist]}
    if kind == "resize":
        modified = _m_apply(model, op)
        part.count("transitions")
        part.count("group_resize_ops")
        try:
            _g_apply(slide, top, op)
            bare = _bare(top.element)
        except Exception as e:  # noqa
            part.violation("C17|group-extents|raised|member-kind=resize|%s" % type(e).__name__,
                           "left/top/width/height := %r on group %r raised %r" % (RESIZES[op[1]], tuple(op[4]), e),
                           replay)
            return None, modified, prev_bad
        obs = _g_obs(bare)
        o = obs
        for i in modified:
            o = o["children"][i]
        # the setters are not part of C17: no verdict here, only the vacuity bookkeeping (the point of the
        # operation is to reach states whose a:off/a:ext differ from a:chOff/a:chExt)
        if o["box"] == RESIZES[op[1]] and o["chbox"] != o["box"]:
            part.count("traces_validated_against_impl")
            part.count("group_scaled_states_reached")
        else:
            part.count("group_resize_not_as_modelled")
        part.outcome("group.resize", "v%d,depth=%d" % (op[1], len(modified)))
        return bare, modified, _g_inconsistent(obs)

    before = {p: _m_bbox(_m_group(model, p)) for p in _m_groups(model)}
    path = tuple(op[4])
    after_resize = any("own" in _m_group(model, path[:k]) for k in range(len(path) + 1))
    child_before = _m_child_bbox(_m_group(model, path))
    modified = _m_apply(model, op)
    part.count("transitions")
    try:
        _g_apply(slide, top, op)
        bare = _bare(top.element)
    except Exception as e:  # noqa
        part.violation("C17|group-extents|raised|member-kind=%s|%s" % (kind, type(e).__name__),
                       "adding %s raised %r" % (kind, e), replay)
        return None, modified, prev_bad
    part.count("traces_validated_against_impl")
    changed = any(_m_bbox(_m_group(model, p)) != b for p, b in before.items())
    if changed:
        part.count("nontrivial_count")
    if _degenerate(op[3]):
        part.count("group_degenerate_additions")
        if changed:
            # a member without area that lies outside the box of the other members: it must enlarge the group
            part.count("group_degenerate_additions_changing_bbox")
    inside = _m_child_bbox(_m_group(model, path)) == child_before
    if after_resize:
        part.count("group_additions_after_resize")
        if inside:
            # the addition lies inside the members' bounding box of a group whose a:off/a:ext had been
            # changed through the setters: child extents stay, position/size must snap back
            part.count("group_additions_inside_bbox_after_resize")
    part.outcome("group.add-" + kind, "bbox-%s,depth=%d%s" % (
        "changed" if changed else "same", len(modified),
        (",after-resize-" + ("inside" if inside else "growing")) if after_resize else ""))
    reports, bad_now = _g_check(top, bare, model, op, modified, prev_bad, after_resize)
    for sig, msg in reports:
        part.violation(sig, msg, replay)
    return bare, modified, bad_now


def _g_leaf_ops(model):
    """The last-operation alphabet: every kind x every regular geometry, plus the degenerate geometries for
    the kinds in KINDS_DEGEN, on every group."""
    for op in _g_ops(model, KINDS, GEOMS_FULL):
        yield op
    for op in _g_ops(model, KINDS_DEGEN, GEOMS_DEGEN):
        yield op


def _g_ops(model, kinds, geoms):
    for path in _m_groups(model):
        for kind in kinds:
            for (px, py, s) in geoms:
                yield (kind, px, py, s, path)


def _g_resize_ops(model):
    """Resize operations: every non-empty group x every variant."""
    for path in _m_groups(model):
        if _m_group(model, path)["children"]:
            for vi in range(len(RESIZES)):
                yield ("resize", vi, 0, 0, path)


def _g_prefixes(spec):
    """All prefix histories for a spec = tuple of positions, each ("add", kinds, geoms) or ("resize",)
    (model-only)."""
    out = [((), _m_new())]
    for pos in spec:
        nxt = []
        for hist, model in out:
            ops = _g_resize_ops(model) if pos[0] == "resize" else _g_ops(model, pos[1], pos[2])
            for op in ops:
                m2 = copy.deepcopy(model)
                _m_apply(m2, op)
                nxt.append((hist + (op,), m2))
        out = nxt
    return out


def _g_expected_leaf_ops(prefix_sets):
    n = 0
    for spec in prefix_sets:
        for _hist, model in _g_prefixes(spec):
            n += len(_m_groups(model)) * LEAF_OPS_PER_GROUP
    return n


def _g_prefix_sets(thorough):
    """Prefix specs; every prefix is then expanded by one operation of the FULL addition alphabet on
    every group. A resize is only ever a prefix operation (the last operation is always an addition)."""
    full = ("add", KINDS, GEOMS_FULL)
    k3 = ("add", KINDS, GEOMS_PREFIX)
    p3 = ("add", KINDS_PREFIX, GEOMS_PREFIX)
    p4 = ("add", KINDS_PREFIX4, GEOMS_PREFIX)
    rs = ("resize",)
    dg = ("add", KINDS_DEGEN_PREFIX, GEOMS_DEGEN_PREFIX)   # a horizontal rule already in the group
    sets = [(), (full,)]
    if thorough:
        sets += [(k3, k3), (p4, p4, p4), (full, rs), (p4, p4, rs), (p4, rs, p4), (dg,), (p4, dg), (dg, p4)]
    else:
        sets += [(p3, p3), (k3, rs), (dg,)]
    return sets


def _g_spec_text(spec):
    return [("resize x%d" % len(RESIZES)) if pos[0] == "resize" else "add %dk x %dg" % (len(pos[1]), len(pos[2]))
            for pos in spec]


def _g_clean_slide(slide, keep):
    spTree = slide.shapes.element
    for ch in list(spTree):
        if ch.tag in SHAPE_TAGS and ch is not keep:
            spTree.remove(ch)


def _g_work(part, chunk):
    """chunk: list of prefix histories; each is replayed (checked), then expanded by every operation
    of the full alphabet on every group (leaf transitions)."""
    for hist in chunk:
        _prs, slide = _blank_slide()
        top = slide.shapes.add_group_shape()
        model = _m_new()
        part.add("states", ("grp", _g_canon(_bare(top.element))))
        part.add("group_model_states", hash(_m_canon(model)))
        done = []
        ok = True
        bad = frozenset()
        for op in hist:
            done.append(op)
            part.count("group_prefix_ops")
            bare, _mod, bad = _g_step(part, slide, top, model, op, done, bad)
            if bare is None:
                ok = False
                break
            part.add("states", ("grp", _g_canon(bare)))
            part.add("group_model_states", hash(_m_canon(model)))
        if not ok:
            continue
        spTree = slide.shapes.element
        snap = copy.deepcopy(top.element)
        nchild = max(len(_m_group(model, p)["children"]) for p in _m_groups(model))
        part.add("group_max_nesting", len(max(_m_groups(model), key=len)) + 1)
        for op in list(_g_leaf_ops(model)):
            m2 = copy.deepcopy(model)
            part.count("group_leaf_ops")
            bare, mod, _bad = _g_step(part, slide, top, m2, op, done + [op], bad)
            if bare is not None:
                part.add("states", ("grp", _g_canon(bare)))
                part.add("group_model_states", hash(_m_canon(m2)))
                part.add("group_max_nesting", len(mod) + 1)
            # restore the snapshot
            cur = top.element
            fresh = copy.deepcopy(snap)
            spTree.replace(cur, fresh)
            _g_clean_slide(slide, fresh)
            top = slide.shapes[0]
        if len(hist) == 2 and hist[0][:4] == ("subgroup-new", 1, 1, 1) and hist[1] == ("subgroup-of", 0, 0, 3, (0,)):
            part.sample({"sys": "group", "prefix": [[o[0], o[1], o[2], _js(o[3]), list(o[4])] for o in hist],
                         "expanded_by": "%d leaf operations x %d groups" % (LEAF_OPS_PER_GROUP, len(_m_groups(model))),
                         "max_members": nchild})


def _g_replay(data):
    _prs, slide = _blank_slide()
    top = slide.shapes.add_group_shape()
    model = _m_new()
    prev_bad = frozenset()
    for o in data["ops"]:
        op = (o[0], o[1], o[2], tuple(o[3]) if isinstance(o[3], list) else o[3], tuple(o[4]))
        path = op[4]
        after_resize = any("own" in _m_group(model, path[:k]) for k in range(len(path) + 1))
        modified = _m_apply(model, op)
        try:
            _g_apply(slide, top, op)
            bare = _bare(top.element)
        except Exception as e:  # noqa
            return "%s on group %r raised %r" % (op[0], path, e)
        if op[0] == "resize":
            prev_bad = _g_inconsistent(_g_obs(bare))
            continue
        bad, prev_bad = _g_check(top, bare, model, op, modified, prev_bad, after_resize)
        if bad and o is data["ops"][-1]:
            return "; ".join("%s: %s" % b for b in bad)
    return None


# =====================================================================================================
# (3) freeform
# =====================================================================================================

FF_STARTS = tuple(itertools.product((-2, 0, 1.5), repeat=2))
FF_COORDS = (-2, -0.5, 0, 1, 2.5)
FF_COORDS_SMALL = (-2, -0.5, 2.5)
FF_POINTS = tuple(itertools.product(FF_COORDS, repeat=2))
FF_POINTS_SMALL = tuple(itertools.product(FF_COORDS_SMALL, repeat=2))
FF_SCALES = (1, 2.5, (1, 3), (0.5, 2))
FF_ORIGINS = ((0, 0), (7, -3))


def _r_even(v):
    f = math.floor(v)
    d = v - f
    if d < 0.5:
        return f
    if d > 0.5:
        return f + 1
    return f if f % 2 == 0 else f + 1


def _r_up(v):
    return math.floor(v + 0.5)


def _r_down(v):
    return math.ceil(v - 0.5)


def _r_away(v):
    return _r_up(v) if v >= 0 else _r_down(v)


def _r_zero(v):
    return _r_down(v) if v >= 0 else _r_up(v)


FF_MODES = (("half-even", _r_even), ("half-up", _r_up), ("half-down", _r_down), ("half-away", _r_away),
            ("half-to-zero", _r_zero), ("unrounded", lambda v: v))


def _ff_points(case):
    """[(kind, x, y)] of all pen positions of the case, in order."""
    pts = [("start", case["start"][0], case["start"][1])]
    for c in case["contours"]:
        if c.get("move") is not None:
            pts.append(("moveto", c["move"][0], c["move"][1]))
        for v in c["verts"]:
            pts.append(("vertex", v[0], v[1]))
    return pts


def _ff_expected(case, origin, rnd):
    sc = case["scale"]
    xs, ys = (sc[0], sc[1]) if isinstance(sc, (list, tuple)) else (sc, sc)
    pts = _ff_points(case)
    rx = [rnd(p[1]) for p in pts]
    ry = [rnd(p[2]) for p in pts]
    return (origin[0] + min(rx) * xs, origin[1] + min(ry) * ys, (max(rx) - min(rx)) * xs, (max(ry) - min(ry)) * ys)


def _ff_new(shapes, case):
    sc = case["scale"]
    scale = tuple(sc) if isinstance(sc, (list, tuple)) else sc
    return shapes.build_freeform(case["start"][0], case["start"][1], scale=scale)


_FF_CONTAINER_SCALES = (1, [0.5, 2])   # the first and the last of FF_SCALES, in the JSON form the cases carry


FF_CONTAINERS = ("tuple", "list-of-lists", "generator", "iterator", "fraction-coordinates")


def _ff_verts(verts, kind="list"):
    """The vertices as the documented 'iterable of (x, y) pairs' of the given kind (default: list of tuples)."""
    if kind == "list":
        return [tuple(v) for v in verts]
    if kind == "tuple":
        return tuple(tuple(v) for v in verts)
    if kind == "list-of-lists":
        return [list(v) for v in verts]
    if kind == "generator":
        return (tuple(v) for v in verts)
    if kind == "iterator":
        return iter([tuple(v) for v in verts])
    if kind == "fraction-coordinates":
        from fractions import Fraction
        return [tuple(Fraction(c).limit_denominator(64) for c in v) for v in verts]
    raise ValueError(kind)


def _ff_draw(b, c, close, kind="list"):
    if c.get("move") is not None:
        b.move_to(c["move"][0], c["move"][1])
    b.add_line_segments(_ff_verts(c["verts"], kind), close=close)


def _ff_build(shapes, case):
    sc = case["scale"]
    scale = tuple(sc) if isinstance(sc, (list, tuple)) else sc
    b = shapes.build_freeform(case["start"][0], case["start"][1], scale=scale)
    for c in case["contours"]:
        if c.get("move") is not None:
            b.move_to(c["move"][0], c["move"][1])
        b.add_line_segments(_ff_verts(c["verts"], case.get("container", "list")), close=case["close"])
    return b


def _ff_check(shape, case, origin):
    """Returns list of (rule, class, message)."""
    out = []
    api = (int(shape.left), int(shape.top), int(shape.width), int(shape.height))
    bare = _bare(shape.element)
    xml = _xfrm_box(bare.find(P + "spPr/" + A + "xfrm"))
    if xml != api:
        out.append(("api-differs-from-xml", "xfrm", "left/top/width/height %r but a:off/a:ext %r" % (api, xml)))
    tol = 1 + 1e-9
    ok = False
    for _name, rnd in FF_MODES:
        exp = _ff_expected(case, origin, rnd)
        if all(abs(api[i] - exp[i]) <= tol for i in range(4)):
            ok = True
            break
    if not ok:
        exp = _ff_expected(case, origin, _r_even)
        pts = _ff_points(case)
        labels = ("position-x", "position-y", "size-w", "size-h")
        for i in range(4):
            if abs(api[i] - exp[i]) > tol:
                if i < 2:
                    vals = [(_r_even(p[1 + i]), p[0]) for p in pts]
                    lo = min(v for v, _ in vals)
                    kinds = [k for v, k in vals if v == lo]
                    cls = "extreme-at=" + ("start" if "start" in kinds else ("vertex" if "vertex" in kinds else "moveto"))
                else:
                    cls = "expected=" + ("zero" if exp[i] == 0 else "nonzero")
                out.append((labels[i], cls,
                            "start=%r contours=%r close=%r scale=%r origin=%r: (left,top,width,height)=%r, scaled "
                            "bounding box of the (half-even rounded) vertices + origin = %r (no tie rule fits +-1)" % (
                                case["start"], case["contours"], case["close"], case["scale"], origin, api, exp)))
                break
    paths = bare.findall(".//" + A + "path")
    if len(paths) != 1:
        out.append(("path-count", "n=%d" % len(paths), "%d a:path elements" % len(paths)))
    for path in paths:
        try:
            w, h = int(path.get("w")), int(path.get("h"))
        except (TypeError, ValueError):
            out.append(("path-extents-missing", "wh", "a:path w=%r h=%r" % (path.get("w"), path.get("h"))))
            continue
        for pt in path.iter(A + "pt"):
            x, y = int(pt.get("x")), int(pt.get("y"))
            opk = etree.QName(pt.getparent()).localname
            for axis, v, lim in (("x", x, w), ("y", y, h)):
                if v < 0 or v > lim:
                    out.append(("pt-outside-path", "axis=%s,in=%s,side=%s" % (axis, opk, "neg" if v < 0 else "over"),
                                "start=%r contours=%r scale=%r: a:pt %s=%d outside 0..%d (a:path w=%d h=%d)" % (
                                    case["start"], case["contours"], case["scale"], axis, v, lim, w, h)))
    return out


def _ff_cases(item, thorough):
    """Expand a work-item descriptor into builder cases (without origin)."""
    kind = item[0]
    if kind == "container":
        # the same pens handed over as another KIND of iterable (one-shot iterables are consumed once only)
        _, start, ckind = item
        for p in FF_POINTS_SMALL:
            for case in _ff_cases(("single", start, p), False):
                if not case["close"] or case["scale"] not in _FF_CONTAINER_SCALES:
                    continue
                case["container"] = ckind
                yield case
        return
    if kind == "single":
        _, start, first = item   # first = None -> the empty list; else lists beginning with `first`
        maxlen = 3 if thorough else 2
        if first is None:
            lists = [[]]
        else:
            lists = []
            for n in range(0, maxlen):
                for rest in itertools.product(FF_POINTS, repeat=n):
                    lists.append([first] + list(rest))
        for verts in lists:
            for close in (True, False):
                for scale in FF_SCALES:
                    yield {"start": list(start), "contours": [{"verts": [list(v) for v in verts]}],
                           "close": close, "scale": list(scale) if isinstance(scale, tuple) else scale}
    else:
        _, start, first = item   # first = list of 0 or 1 vertices
        pts = FF_POINTS if thorough else FF_POINTS_SMALL
        for m in pts:
            for second in [[]] + [[v] for v in pts]:
                for close in (True, False):
                    for scale in FF_SCALES:
                        yield {"start": list(start),
                               "contours": [{"verts": [list(v) for v in first]},
                                            {"move": list(m), "verts": [list(v) for v in second]}],
                               "close": close, "scale": list(scale) if isinstance(scale, tuple) else scale}


FF_REUSE_SCALES_QUICK = (1, (0.5, 2))


def _ff_reuse_params(thorough):
    pts = FF_POINTS if thorough else FF_POINTS_SMALL
    scales = FF_SCALES if thorough else FF_REUSE_SCALES_QUICK
    # S2 forms: continue drawing ("line") or start a new contour ("move": move_to(v1) then the rest)
    forms = []
    for how in ("line", "move"):
        forms.extend((how, [v]) for v in pts)
        forms.extend((how, [v1, v2]) for v1 in pts for v2 in pts)
    return forms, scales


def _ff_reuse_cases(item, thorough):
    """Builder-reuse family: start, S1 (0 or 1 vertex), convert at origin 1, then S2 (1 or 2 more pen
    positions, continuing the contour or opening a new one with move_to), convert at origin 2.
    Yields (case, split) where case describes everything drawn and split = number of contours drawn
    before the first conversion (always 1)."""
    _, start, first = item
    forms, scales = _ff_reuse_params(thorough)
    for how, vs in forms:
        if how == "line":
            second = {"verts": [list(v) for v in vs]}
        else:
            second = {"move": list(vs[0]), "verts": [list(v) for v in vs[1:]]}
        for scale in scales:
            yield ({"start": list(start), "contours": [{"verts": [list(v) for v in first]}, second],
                    "close": True, "scale": list(scale) if isinstance(scale, tuple) else scale}, 1)


def _ff_reuse_run(shapes, case, split, origins):
    """Draw contours[:split], convert at origins[0], draw the rest with the SAME builder, convert at
    origins[1]. Each produced shape is checked against the vertices drawn up to its conversion. Returns
    [(stage, shape, [(rule, class, message)])]."""
    b = _ff_new(shapes, case)
    out = []
    for c in case["contours"][:split]:
        _ff_draw(b, c, case["close"])
    part1 = dict(case, contours=case["contours"][:split])
    shp = b.convert_to_shape(origins[0][0], origins[0][1])
    out.append((1, shp, _ff_check(shp, part1, tuple(origins[0]))))
    for c in case["contours"][split:]:
        _ff_draw(b, c, case["close"])
    shp = b.convert_to_shape(origins[1][0], origins[1][1])
    out.append((2, shp, _ff_check(shp, case, tuple(origins[1]))))
    return out


def _ff_items(thorough):
    items = []
    for start in FF_STARTS:
        items.append(("single", start, None))
        for p in FF_POINTS:
            items.append(("single", start, p))
    for start in FF_STARTS:
        items.append(("double", start, ()))
        for p in FF_POINTS_SMALL:
            items.append(("double", start, (p,)))
    for start in FF_STARTS:
        items.append(("reuse", start, ()))
        for p in FF_POINTS_SMALL:
            items.append(("reuse", start, (p,)))
    for start in FF_STARTS:
        for ckind in FF_CONTAINERS:
            items.append(("container", start, ckind))
    return items


def _ff_expected_count(thorough):
    maxlen = 3 if thorough else 2
    nlists = sum(len(FF_POINTS) ** n for n in range(0, maxlen + 1))
    single = len(FF_STARTS) * nlists
    npts = len(FF_POINTS if thorough else FF_POINTS_SMALL)
    double = len(FF_STARTS) * (1 + len(FF_POINTS_SMALL)) * npts * (1 + npts)
    container = len(FF_STARTS) * len(FF_CONTAINERS) * len(FF_POINTS_SMALL) * (1 + len(FF_POINTS)) * len(_FF_CONTAINER_SCALES)
    return ((single + double) * 2 * len(FF_SCALES) + container) * len(FF_ORIGINS) + 2 * _ff_expected_reuse_builders(thorough)


def _ff_expected_reuse_builders(thorough):
    n = len(FF_POINTS if thorough else FF_POINTS_SMALL)
    nscales = len(FF_SCALES if thorough else FF_REUSE_SCALES_QUICK)
    return len(FF_STARTS) * (1 + len(FF_POINTS_SMALL)) * 2 * (n + n * n) * nscales


_FF_THOROUGH = False


def _ff_work(part, chunk):
    _prs, slide = _blank_slide()
    shapes = slide.shapes
    spTree = shapes.element
    nsample = 0
    for item in chunk:
        if item[0] == "reuse":
            _ff_reuse_work(part, slide, item)
            continue
        for case in _ff_cases(item, _FF_THOROUGH):
            replay = {"sys": "freeform", "case": case, "origins": [list(o) for o in FF_ORIGINS]}
            try:
                b = _ff_build(shapes, case)
            except Exception as e:  # noqa
                part.violation("C17|freeform|raised|build|%s" % type(e).__name__,
                               "building %r raised %r" % (case, e), replay)
                continue
            pts = _ff_points(case)
            nontrivial = any(abs(c - math.floor(c) - 0.5) < 1e-9 for p in pts for c in p[1:]) or \
                min(p[1] for p in pts) < pts[0][1] or min(p[2] for p in pts) < pts[0][2]
            for origin in FF_ORIGINS:
                part.count("transitions")
                part.count("ff_shapes")
                try:
                    shp = b.convert_to_shape(origin[0], origin[1])
                    bad = _ff_check(shp, case, origin)
                except Exception as e:  # noqa
                    part.violation("C17|freeform|raised|convert|%s" % type(e).__name__,
                                   "convert_to_shape%r of %r raised %r" % (origin, case, e), replay)
                    _g_clean_slide(slide, None)
                    continue
                part.count("traces_validated_against_impl")
                if nontrivial:
                    part.count("nontrivial_count")
                for rule, cls, msg in bad:
                    part.violation("C17|freeform|%s|%s" % (rule, cls), "origin=%r: %s" % (origin, msg), replay)
                spTree.remove(shp.element)
            part.outcome("freeform.contours=%d" % len(case["contours"]),
                         "w%s,h%s" % ("0" if len({p[1] for p in pts}) == 1 else "+",
                                      "0" if len({p[2] for p in pts}) == 1 else "+"))
            if nsample < 1 and len(case["contours"]) == 2 and case["contours"][1]["verts"] and item[2] \
                    and item[1] == (1.5, -2) and item[2][0] == (-0.5, 2.5) and case["scale"] == [0.5, 2]:
                nsample += 1
                part.sample({"sys": "freeform", "case": case})


def _ff_reuse_work(part, slide, item):
    shapes = slide.shapes
    spTree = shapes.element
    origins = [list(o) for o in FF_ORIGINS]
    for case, split in _ff_reuse_cases(item, _FF_THOROUGH):
        replay = {"sys": "freeform-reuse", "case": case, "split": split, "origins": origins}
        part.count("ff_reuse_builders")
        part.count("transitions", 2)
        part.count("ff_shapes", 2)
        try:
            res = _ff_reuse_run(shapes, case, split, origins)
        except Exception as e:  # noqa
            part.violation("C17|freeform|raised|reuse|%s" % type(e).__name__,
                           "draw, convert, draw, convert of %r raised %r" % (case, e), replay)
            _g_clean_slide(slide, None)
            continue
        part.count("traces_validated_against_impl", 2)
        p1 = _ff_points(dict(case, contours=case["contours"][:split]))
        p2 = _ff_points(case)
        # rounding is monotone, so comparing the raw minima decides "extends to the left / top" except
        # for values within one rounding step, which the alphabet keeps apart or equal
        left = min(_r_even(p[1]) for p in p2) < min(_r_even(p[1]) for p in p1)
        up = min(_r_even(p[2]) for p in p2) < min(_r_even(p[2]) for p in p1)
        if left or up:
            part.count("ff_reuse_extends_left_or_top")
            part.count("nontrivial_count", 2)
        else:
            part.count("ff_reuse_not_extending_left_or_top")
        part.outcome("freeform.reuse-" + ("move" if case["contours"][1].get("move") is not None else "line"),
                     "left=%d,up=%d" % (left, up))
        for stage, shp, bad in res:
            for rule, cls, msg in bad:
                part.violation("C17|freeform|%s|%s|%s" % (rule, cls, "builder-reuse-first" if stage == 1 else "builder-reuse"),
                               "shape %d of one builder (drawn, converted at %r, drawn further, converted at %r): %s" % (
                                   stage, tuple(origins[0]), tuple(origins[1]), msg), replay)
            spTree.remove(shp.element)
        if item[1] == (1.5, -2) and item[2] == ((-0.5, 2.5),) and case["scale"] == [0.5, 2] \
                and case["contours"][1] == {"move": [-2, -2], "verts": [[2.5, -0.5]]}:
            part.sample({"sys": "freeform-reuse", "case": case, "split": split})


def _ff_reuse_replay(data):
    _prs, slide = _blank_slide()
    try:
        res = _ff_reuse_run(slide.shapes, data["case"], data["split"], data["origins"])
    except Exception as e:  # noqa
        return "draw, convert, draw, convert of %r raised %r" % (data["case"], e)
    msgs = ["shape %d: %s|%s: %s" % (stage, r, c, m) for stage, _shp, bad in res for r, c, m in bad]
    return "; ".join(msgs) or None


def _ff_replay(data):
    case = data["case"]
    _prs, slide = _blank_slide()
    try:
        b = _ff_build(slide.shapes, case)
    except Exception as e:  # noqa
        return "building %r raised %r" % (case, e)
    msgs = []
    for origin in data["origins"]:
        try:
            shp = b.convert_to_shape(origin[0], origin[1])
            bad = _ff_check(shp, case, tuple(origin))
        except Exception as e:  # noqa
            return "convert_to_shape%r raised %r" % (tuple(origin), e)
        msgs.extend("origin=%r %s|%s: %s" % (tuple(origin), r, c, m) for r, c, m in bad)
    return "; ".join(msgs) or None


# =====================================================================================================
# run / replay
# =====================================================================================================

def run(ctx):
    global _FF_THOROUGH
    thorough = ctx.thorough
    _FF_THOROUGH = thorough
    _img()
    _chart_data()

    # ---- (1) connector: closure, in the parent (small) -----------------------------------------------
    t0 = dict(ctx.counters)
    conn_states, levels = _conn_closure(ctx)
    conn_tr = ctx.counters.get("transitions", 0) - t0.get("transitions", 0)
    for scale in CONN_SCALES:
        # every pair of end points over {0..4}^2 is reachable (assign the four coordinates in turn)
        if conn_states.get(scale, 0) < 625 and not ctx.violations:
            raise HarnessError("connector closure at scale %d has %r states < 625 end-point pairs" % (
                scale, conn_states.get(scale)))
    exp_tr = sum(256 + 20 * n for n in conn_states.values())
    if conn_tr != exp_tr and not ctx.violations and ctx.exhaustive:
        raise HarnessError("connector transitions %d != 256 creations + 20 x states = %d" % (conn_tr, exp_tr))
    ctx.extra["connector"] = {"states_per_scale": {str(k): v for k, v in sorted(conn_states.items())},
                              "states": sum(conn_states.values()), "transitions": conn_tr,
                              "traces_validated": conn_tr, "bfs_levels": levels,
                              "closure": "complete (frontier exhausted, no depth bound)" if ctx.exhaustive else "capped"}

    # ---- (2) groups ----------------------------------------------------------------------------------
    sets = _g_prefix_sets(thorough)
    hists = []
    for spec in sets:
        hists.extend(h for h, _m in _g_prefixes(spec))
    if len(set(hists)) != len(hists):
        raise HarnessError("group prefix histories are not distinct")
    exp_leaf = _g_expected_leaf_ops(sets)
    exp_prefix = sum(len(h) for h in hists)
    before = dict(ctx.counters)
    nstates_before = len(ctx.sets.get("states", ()))
    # shortest histories first and in the parent, so that the witness kept per signature is minimal
    _g_work(ctx, [h for h in hists if len(h) == 0])
    fanout(ctx, _g_work, ctx.rotate([h for h in hists if len(h) > 0]), chunk_size=1 if thorough else 2)
    leaf = ctx.counters.get("group_leaf_ops", 0)
    if leaf != exp_leaf and not any(v[0].startswith("C17|group-extents|raised") for v in ctx.violations):
        raise HarnessError("group leaf operations %d != closed form %d" % (leaf, exp_leaf))
    if ctx.counters.get("group_prefix_ops", 0) != exp_prefix:
        if not any(v[0].startswith("C17|group-extents|raised") for v in ctx.violations):
            raise HarnessError("group prefix operations %d != %d" % (ctx.counters.get("group_prefix_ops", 0), exp_prefix))
    g_tr = ctx.counters.get("transitions", 0) - before.get("transitions", 0)
    g_states = len(ctx.sets.get("states", ())) - nstates_before
    nest = ctx.sets.pop("group_max_nesting", set())
    model_states = len(ctx.sets.pop("group_model_states", set()))
    c = ctx.counters
    ctx.extra["groups"] = {
        "states": g_states, "model_states": model_states, "transitions": g_tr,
        "traces_validated": c.get("traces_validated_against_impl", 0) - before.get("traces_validated_against_impl", 0),
        "prefix_histories": len(hists), "leaf_operations": leaf, "prefix_replay_operations": exp_prefix,
        "max_history_length": max(len(sp) for sp in sets) + 1, "max_nesting_depth": max(nest) if nest else 0,
        "alphabet_full": "%d kinds x %d geometries + %d kinds x %d degenerate geometries = %d per group" % (
            len(KINDS), len(GEOMS_FULL), len(KINDS_DEGEN), len(GEOMS_DEGEN), LEAF_OPS_PER_GROUP),
        "degenerate_additions": c.get("group_degenerate_additions", 0),
        "degenerate_additions_changing_a_bbox": c.get("group_degenerate_additions_changing_bbox", 0),
        "prefix_sets": [_g_spec_text(sp) for sp in sets],
        "resize_values(left,top,width,height)": [list(r) for r in RESIZES],
        "resize_operations": c.get("group_resize_ops", 0),
        "scaled_group_states_reached(off/ext != chOff/chExt)": c.get("group_scaled_states_reached", 0),
        "additions_after_resize_on_path": c.get("group_additions_after_resize", 0),
        "additions_inside_member_bbox_after_resize": c.get("group_additions_inside_bbox_after_resize", 0),
    }
    want_nest = 5 if thorough else 4
    clean = not ctx.violations
    if clean or all("raised" not in v[0] for v in ctx.violations):
        if (max(nest) if nest else 0) != want_nest:
            raise HarnessError("group nesting depth reached %r != %d" % (max(nest) if nest else 0, want_nest))
    if clean and not c.get("group_degenerate_additions_changing_bbox", 0):
        raise HarnessError("no degenerate member addition changed a bounding box")
    # non-vacuity of the resize operation: the setters must have produced scaled groups, and additions
    # that leave the member bounding box unchanged must have been made into them
    if clean and (c.get("group_resize_not_as_modelled", 0) or not c.get("group_scaled_states_reached", 0)
                  or not c.get("group_additions_inside_bbox_after_resize", 0)):
        raise HarnessError("resize operation vacuous: %d resizes not as modelled, %d scaled states, %d inside-box "
                           "additions after a resize" % (c.get("group_resize_not_as_modelled", 0),
                                                         c.get("group_scaled_states_reached", 0),
                                                         c.get("group_additions_inside_bbox_after_resize", 0)))
    # the implementation state key (serialised tree, shape ids included) is at least as fine as the
    # reference model's (tree of kinds/boxes): histories that interleave additions to different groups give
    # equal model trees but different shape ids; an addition into a resized group snaps it back and merges
    # with the history without the resize in both
    if clean and g_states < model_states:
        raise HarnessError("group states %d < reference-model states %d" % (g_states, model_states))
    if clean and g_states > 1 + leaf + exp_prefix:
        raise HarnessError("group states %d > 1 + leaf operations + prefix operations" % g_states)

    # ---- (3) freeform --------------------------------------------------------------------------------
    before = dict(ctx.counters)
    items = _ff_items(thorough)
    fanout(ctx, _ff_work, ctx.rotate(items), chunk_size=2)
    ff = ctx.counters.get("ff_shapes", 0)
    exp_ff = _ff_expected_count(thorough)
    if ff != exp_ff and not any(v[0].startswith("C17|freeform|raised|build") for v in ctx.violations):
        raise HarnessError("freeform shapes %d != closed form %d" % (ff, exp_ff))
    if ctx.counters.get("ff_reuse_builders", 0) != _ff_expected_reuse_builders(thorough) and not ctx.violations:
        raise HarnessError("freeform reuse builders %d != closed form %d" % (
            ctx.counters.get("ff_reuse_builders", 0), _ff_expected_reuse_builders(thorough)))
    if not ctx.violations and not (ctx.counters.get("ff_reuse_extends_left_or_top", 0)
                                   and ctx.counters.get("ff_reuse_not_extending_left_or_top", 0)):
        raise HarnessError("freeform reuse family vacuous: no case extends / does not extend the box to the left/top")
    # every freeform shape is a distinct state (pen x close x scale x origin), one transition each
    ctx.extra["freeform"] = {
        "states": ff, "transitions": ff,
        "traces_validated": ctx.counters.get("traces_validated_against_impl", 0) - before.get("traces_validated_against_impl", 0),
        "builders": ff // len(FF_ORIGINS), "first_contour_max_vertices": 3 if thorough else 2,
        "reuse_builders(draw,convert,draw,convert)": ctx.counters.get("ff_reuse_builders", 0),
        "reuse_second_drawing_extends_left_or_top": ctx.counters.get("ff_reuse_extends_left_or_top", 0),
        "reuse_second_drawing_not_extending": ctx.counters.get("ff_reuse_not_extending_left_or_top", 0),
        "second_contour_coordinate_alphabet": list(FF_COORDS if thorough else FF_COORDS_SMALL),
    }
    # the framework reads counters["states"] before sets["states"]: publish the total explicitly
    ctx.counters["states"] = len(ctx.sets.get("states", ())) + ff


def replay(data):
    s = data["sys"]
    if s == "connector":
        return _conn_replay(data)
    if s == "group":
        return _g_replay(data)
    if s == "freeform":
        return _ff_replay(data)
    if s == "freeform-reuse":
        return _ff_reuse_replay(data)
    raise ValueError(s)
