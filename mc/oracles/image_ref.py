"""Reference model for C15: what an image file *is* (format, stored resolution) read independently of
python-pptx and of Pillow, and what the property statement promises about it.

* `stored_dpi(blob, fmt)`  - the resolution actually stored in the file, from hand-written readers of the PNG pHYs
  chunk, the JFIF APP0 density fields, the BMP info header and the TIFF IFD0 resolution tags (GIF carries none).
  Returns (xdpi|None, ydpi|None); None = the file carries no absolute resolution.
* `effective_dpis(d)`      - the set of DPI values the statement allows the library to use for a stored value d:
  72 when absent or implausible; the docs of `Image.dpi` define implausible as "less than 1 or greater than 2048" and
  say an *integer* dpi is produced, so both the raw value and the nearest integer(s) are accepted (weaker reading),
  each replaced by 72 when outside [1, 2048].
* `native_ok`             - size = pixels * 914400 / dpi, evaluated in exact rational arithmetic: a shape size is
  a whole number of EMU, so when the exact value is a whole number the size must BE that number (nothing to
  round), otherwise it may be either neighbouring integer (floor or ceiling; the statement does not say which
  way a fractional EMU goes).
* `aspect_ok`             - the missing dimension preserves the aspect ratio of the native size to within 1 EMU
  (+ the propagation of the 1-EMU rounding of a non-integral native size).
* `FORMATS`                - extension(s) and content type of each generated format (from the statement / IANA).
* `sniff(blob)`            - format by magic number (used only for images the library supplies itself and for the
  images of initial decks).
"""

from __future__ import annotations

import math
import struct
from fractions import Fraction

EMU_PER_INCH = 914400

# format -> (accepted extensions, content type). The statement says "those of the actual image format": for JPEG
# and TIFF both customary spellings of the extension are accepted (weaker reading).
FORMATS = {
    "PNG": (("png",), "image/png"),
    "JPEG": (("jpg", "jpeg", "jpe"), "image/jpeg"),
    "GIF": (("gif",), "image/gif"),
    "BMP": (("bmp",), "image/bmp"),
    "TIFF": (("tiff", "tif"), "image/tiff"),
    "EMF": (("emf",), "image/x-emf"),
    "WMF": (("wmf",), "image/x-wmf"),
}


def sniff(blob: bytes):
    if blob[:8] == b"\x89PNG\r\n\x1a\n":
        return "PNG"
    if blob[:3] == b"\xff\xd8\xff":
        return "JPEG"
    if blob[:6] in (b"GIF87a", b"GIF89a"):
        return "GIF"
    if blob[:2] == b"BM":
        return "BMP"
    if blob[:4] in (b"II*\x00", b"MM\x00*"):
        return "TIFF"
    if len(blob) >= 44 and blob[:4] == b"\x01\x00\x00\x00" and blob[40:44] == b" EMF":
        return "EMF"
    if blob[:4] == b"\xd7\xcd\xc6\x9a" or blob[:6] in (b"\x01\x00\x09\x00\x00\x03", b"\x02\x00\x09\x00\x00\x03"):
        return "WMF"
    return None


# ---- stored resolution -----------------------------------------------------------------------------

def _png_dpi(b):
    pos = 8
    while pos + 8 <= len(b):
        (n,) = struct.unpack(">I", b[pos:pos + 4])
        typ = b[pos + 4:pos + 8]
        if typ == b"pHYs" and n == 9:
            x, y, unit = struct.unpack(">IIB", b[pos + 8:pos + 17])
            if unit != 1:  # 0 = aspect ratio only
                return (None, None)
            return (x * 0.0254, y * 0.0254)
        if typ in (b"IDAT", b"IEND"):
            break
        pos += 12 + n
    return (None, None)


def _jpeg_dpi(b):
    pos = 2
    while pos + 4 <= len(b):
        if b[pos] != 0xFF:
            break
        marker = b[pos + 1]
        if marker in (0xD8, 0x01) or 0xD0 <= marker <= 0xD7:
            pos += 2
            continue
        (n,) = struct.unpack(">H", b[pos + 2:pos + 4])
        if marker == 0xE0 and b[pos + 4:pos + 9] == b"JFIF\x00":
            unit, x, y = struct.unpack(">BHH", b[pos + 11:pos + 16])
            if unit == 1:
                return (float(x), float(y))
            if unit == 2:
                return (x * 2.54, y * 2.54)
            return (None, None)
        if marker == 0xDA:
            break
        pos += 2 + n
    return (None, None)


def _bmp_dpi(b):
    (hdr,) = struct.unpack("<I", b[14:18])
    if hdr < 40:  # BITMAPCOREHEADER has no resolution
        return (None, None)
    x, y = struct.unpack("<ii", b[38:46])
    return (x * 0.0254, y * 0.0254)


def _tiff_dpi(b):
    e = "<" if b[:2] == b"II" else ">"
    (off,) = struct.unpack(e + "I", b[4:8])
    (n,) = struct.unpack(e + "H", b[off:off + 2])
    tags = {}
    for i in range(n):
        ent = b[off + 2 + 12 * i: off + 14 + 12 * i]
        tag, typ, cnt = struct.unpack(e + "HHI", ent[:8])
        tags[tag] = (typ, cnt, ent[8:12])

    def rational(tag):
        if tag not in tags:
            return None
        typ, cnt, val = tags[tag]
        if typ != 5:
            return None
        (o,) = struct.unpack(e + "I", val)
        num, den = struct.unpack(e + "II", b[o:o + 8])
        if den == 0:
            return None
        return num / den

    unit = 2  # TIFF 6.0: default ResolutionUnit is inch
    if 296 in tags:
        (unit,) = struct.unpack(e + "H", tags[296][2][:2])
    x, y = rational(282), rational(283)
    if unit == 1:  # no absolute unit of measurement
        return (None, None)
    k = 2.54 if unit == 3 else 1.0
    return (None if x is None else x * k, None if y is None else y * k)


def stored_dpi(blob: bytes, fmt: str):
    """(xdpi, ydpi) stored in the file; None where the file states no absolute resolution."""
    if fmt == "PNG":
        return _png_dpi(blob)
    if fmt == "JPEG":
        return _jpeg_dpi(blob)
    if fmt == "BMP":
        return _bmp_dpi(blob)
    if fmt == "TIFF":
        return _tiff_dpi(blob)
    return (None, None)


# ---- the statement's size rule -------------------------------------------------------------------

LOW, HIGH = 1, 2048  # docs of pptx.parts.image.Image.dpi: "less than 1 or greater than 2048" -> 72


def _plausible(v):
    return 72 if (v < LOW or v > HIGH) else v


def effective_dpis(d):
    """Set of DPI values allowed for a stored resolution d (None = absent)."""
    if d is None:
        return {72}
    try:
        d = float(d)
    except (TypeError, ValueError):
        return {72}
    if math.isnan(d) or math.isinf(d):
        return {72}
    out = {_plausible(d)}
    for n in {math.floor(d + 0.5), math.ceil(d - 0.5)}:  # nearest integer; both neighbours on a tie
        out.add(_plausible(n))
    return out


def native_exact(px, c):
    """px * 914400 / c as an exact rational (c: int or float dpi, taken at its exact binary value)."""
    return Fraction(px * EMU_PER_INCH) / Fraction(c)


def native_ok(px, d, got):
    """got is px * 914400 / dpi for one of the allowed dpi values: exactly when that is a whole number of EMU,
    else one of the two neighbouring integers."""
    for c in effective_dpis(d):
        exact = native_exact(px, c)
        if math.floor(exact) <= got <= math.ceil(exact):
            return True
    return False


def native_expected_exact(px, d):
    return sorted({native_exact(px, c) for c in effective_dpis(d)})


def native_expected(px, d):
    return sorted(px * EMU_PER_INCH / c for c in effective_dpis(d))


def aspect_ok(size_px, dpi, given_axis, given, got):
    """One dimension `given` (axis 0 = width, 1 = height); `got` is the other one. Aspect ratio of the native size
    (pixels / dpi per axis) preserved to within 1 EMU of rounding."""
    (px, py), (dx, dy) = size_px, dpi
    for cx in effective_dpis(dx):
        for cy in effective_dpis(dy):
            nw, nh = px * EMU_PER_INCH / cx, py * EMU_PER_INCH / cy
            exp = given * nh / nw if given_axis == 0 else given * nw / nh
            slack = 0.0
            if nw != int(nw) or nh != int(nh):
                slack = exp * (1.0 / nw + 1.0 / nh)
            if abs(got - exp) <= 1 + slack:
                return True
    return False


def aspect_expected(size_px, dpi, given_axis, given):
    (px, py), (dx, dy) = size_px, dpi
    out = set()
    for cx in effective_dpis(dx):
        for cy in effective_dpis(dy):
            nw, nh = px / cx, py / cy
            out.add(round(given * nh / nw if given_axis == 0 else given * nw / nh, 3))
    return sorted(out)
