"""Schema oracles built at check time from the ISO/IEC 29500-4 transitional XSDs shipped in /repo/spec.

* SchemaSet(relaxed=False)  strict schemas as shipped + generated *probe* global elements:
      {ns}__CT_<name>  of type CT_<name>     (validate a fragment of a known complex type)
      {ns}__ST_<name>  of type ST_<name>     (validate a lexical value of a simple type)
* SchemaSet(relaxed=True)   same, but every particle minOccurs=0 and every attribute optional:
      accepts exactly the child ORDERS and choice exclusivity the schema allows.
* Index: tag -> candidate complex types, type -> particle tree / attribute types.

libxml2 is the decision procedure; python-pptx is not involved.
"""

from __future__ import annotations

import atexit
import copy
import os
import re
import shutil
import tempfile

from lxml import etree

XS = "http://www.w3.org/2001/XMLSchema"
X = "{%s}" % XS
REPO = os.environ.get("VERIF_REPO", "/repo")
XSD_DIR = os.path.join(REPO, "spec", "ISO-IEC-29500-4", "xsd")
OPC_XSD_DIR = os.path.join(REPO, "spec", "ISO-IEC-29500-2", "opc-xsd")

NS_P = "http://schemas.openxmlformats.org/presentationml/2006/main"
NS_A = "http://schemas.openxmlformats.org/drawingml/2006/main"
NS_C = "http://schemas.openxmlformats.org/drawingml/2006/chart"
NS_R = "http://schemas.openxmlformats.org/officeDocument/2006/relationships"
NS_S = "http://schemas.openxmlformats.org/officeDocument/2006/sharedTypes"
NS_PIC = "http://schemas.openxmlformats.org/drawingml/2006/picture"

_FILES_SKIP = ()


def _qname(node, value):
    """Resolve a QName attribute value ('a:CT_X' or 'CT_X') to (ns, local) using in-scope nsmap."""
    if ":" in value:
        pfx, local = value.split(":", 1)
        return (node.nsmap.get(pfx), local)
    return (node.nsmap.get(None) or _target_ns(node), local_default(value))


def local_default(v):
    return v


def _target_ns(node):
    return node.getroottree().getroot().get("targetNamespace")


class Index:
    """Structural index over the transitional schemas."""

    def __init__(self, xsd_dir=XSD_DIR):
        self.docs = {}
        for fn in sorted(os.listdir(xsd_dir)):
            if fn.endswith(".xsd"):
                self.docs[fn] = etree.parse(os.path.join(xsd_dir, fn))
        self.ctypes = {}   # (ns, name) -> node
        self.stypes = {}
        self.groups = {}
        self.attrgroups = {}
        self.gelems = {}   # (ns, name) -> (ns,type)
        self.tag_types = {}  # clark -> set((ns,type))
        for fn, doc in self.docs.items():
            root = doc.getroot()
            tns = root.get("targetNamespace")
            for n in root:
                if not isinstance(n.tag, str):
                    continue
                name = n.get("name")
                if n.tag == X + "complexType":
                    self.ctypes[(tns, name)] = n
                elif n.tag == X + "simpleType":
                    self.stypes[(tns, name)] = n
                elif n.tag == X + "group":
                    self.groups[(tns, name)] = n
                elif n.tag == X + "attributeGroup":
                    self.attrgroups[(tns, name)] = n
            for el in root.iter(X + "element"):
                name, typ = el.get("name"), el.get("type")
                if name is None or typ is None:
                    continue
                form_q = True  # elementFormDefault="qualified" throughout these schemas
                clark = "{%s}%s" % (tns, name) if form_q else name
                t = self._resolve(el, typ)
                self.tag_types.setdefault(clark, set()).add(t)
                if el.getparent() is root:
                    self.gelems[(tns, name)] = t
        self._particles = {}
        self._attrs = {}

    def _resolve(self, node, value):
        if ":" in value:
            pfx, local = value.split(":", 1)
            return (node.nsmap.get(pfx), local)
        return (node.nsmap.get(None), value)

    # ---- particle trees -------------------------------------------------------------------------
    def particles(self, t):
        """Particle tree of complex type t: nested tuples
           ('elem', clark, min, max, (ns,type)|None) | ('seq'|'choice'|'all', [children], min, max) | ('any', min, max)"""
        if t in self._particles:
            return self._particles[t]
        node = self.ctypes.get(t)
        res = ("seq", [], 1, 1)
        if node is not None:
            res = self._ct_particles(node)
        self._particles[t] = res
        return res

    def _occ(self, n):
        mn = int(n.get("minOccurs", "1"))
        mx = n.get("maxOccurs", "1")
        mx = 10 ** 9 if mx == "unbounded" else int(mx)
        return mn, mx

    def _ct_particles(self, node):
        parts = []
        for ch in node:
            if not isinstance(ch.tag, str):
                continue
            if ch.tag in (X + "sequence", X + "choice", X + "all", X + "group"):
                parts.append(self._particle(ch))
            elif ch.tag in (X + "complexContent", X + "simpleContent"):
                for ext in ch:
                    if not isinstance(ext.tag, str):
                        continue
                    if ext.tag in (X + "extension", X + "restriction"):
                        base = self._resolve(ext, ext.get("base"))
                        if ext.tag == X + "extension" and base in self.ctypes:
                            parts.append(self.particles(base))
                        for sub in ext:
                            if isinstance(sub.tag, str) and sub.tag in (X + "sequence", X + "choice", X + "all", X + "group"):
                                parts.append(self._particle(sub))
        if len(parts) == 1:
            return parts[0]
        return ("seq", parts, 1, 1)

    def _particle(self, n):
        mn, mx = self._occ(n)
        tns = _target_ns(n)
        if n.tag == X + "element":
            if n.get("ref"):
                ns, local = self._resolve(n, n.get("ref"))
                return ("elem", "{%s}%s" % (ns, local), mn, mx, self.gelems.get((ns, local)))
            typ = n.get("type")
            return ("elem", "{%s}%s" % (tns, n.get("name")), mn, mx, self._resolve(n, typ) if typ else None)
        if n.tag == X + "any":
            return ("any", mn, mx)
        if n.tag == X + "group":
            ref = n.get("ref")
            g = self.groups[self._resolve(n, ref)]
            inner = [self._particle(c) for c in g if isinstance(c.tag, str) and c.tag in (X + "sequence", X + "choice", X + "all")]
            p = inner[0]
            # occurrence of the group ref multiplies the compositor's
            return (p[0], p[1], min(mn, p[2]) if mn == 0 else p[2], max(mx, p[3]))
        kind = {X + "sequence": "seq", X + "choice": "choice", X + "all": "all"}[n.tag]
        kids = [self._particle(c) for c in n if isinstance(c.tag, str) and c.tag in (X + "element", X + "any", X + "group", X + "sequence", X + "choice", X + "all")]
        return (kind, kids, mn, mx)

    def child_tags(self, t):
        """All element tags that can occur as direct children of type t, in declaration order, with type."""
        out = []

        def walk(p):
            if p[0] == "elem":
                out.append((p[1], p[4]))
            elif p[0] in ("seq", "choice", "all"):
                for k in p[1]:
                    walk(k)
        walk(self.particles(t))
        return out

    # ---- attributes -----------------------------------------------------------------------------
    def attrs(self, t):
        """dict attribute clark-or-plain name -> ((ns, simpletype)|('xsd', builtin), use, default)"""
        if t in self._attrs:
            return self._attrs[t]
        out = {}
        node = self.ctypes.get(t)
        if node is not None:
            self._collect_attrs(node, out)
        self._attrs[t] = out
        return out

    def _collect_attrs(self, node, out):
        for ch in node.iter():
            if not isinstance(ch.tag, str):
                continue
            if ch.tag == X + "attribute":
                if ch.get("ref"):
                    ns, local = self._resolve(ch, ch.get("ref"))
                    # global attribute: find its declaration
                    typ = None
                    for doc in self.docs.values():
                        r = doc.getroot()
                        if r.get("targetNamespace") == ns:
                            for ga in r.findall(X + "attribute"):
                                if ga.get("name") == local and ga.get("type"):
                                    typ = self._resolve(ga, ga.get("type"))
                    out["{%s}%s" % (ns, local)] = (typ, ch.get("use", "optional"), ch.get("default"))
                else:
                    typ = ch.get("type")
                    out[ch.get("name")] = (self._resolve(ch, typ) if typ else None, ch.get("use", "optional"), ch.get("default"))
            elif ch.tag == X + "attributeGroup" and ch.get("ref"):
                g = self.attrgroups.get(self._resolve(ch, ch.get("ref")))
                if g is not None:
                    self._collect_attrs(g, out)
            elif ch.tag in (X + "extension",) and ch.get("base"):
                base = self._resolve(ch, ch.get("base"))
                if base in self.ctypes:
                    for k, v in self.attrs(base).items():
                        out.setdefault(k, v)

    def enumeration(self, st):
        """Enumeration tokens of a simple type (following restriction bases and unions), or None."""
        node = self.stypes.get(st)
        if node is None:
            return None
        toks = [e.get("value") for e in node.iter(X + "enumeration")]
        if toks:
            return toks
        for u in node.iter(X + "union"):
            out = []
            for m in (u.get("memberTypes") or "").split():
                e = self.enumeration(self._resolve(u, m))
                if e:
                    out.extend(e)
            return out or None
        for r in node.iter(X + "restriction"):
            b = r.get("base")
            if b:
                bt = self._resolve(r, b)
                if bt in self.stypes:
                    return self.enumeration(bt)
        return None


def _relax(doc):
    root = doc.getroot()
    for n in root.iter():
        if not isinstance(n.tag, str):
            continue
        if n.tag in (X + "element", X + "any"):
            if n.getparent() is not root:
                n.set("minOccurs", "0")
        elif n.tag == X + "group":
            if n.get("ref") is not None:
                n.set("minOccurs", "0")
        elif n.tag in (X + "sequence", X + "choice", X + "all"):
            par = n.getparent()
            if par.tag == X + "group" and par.get("name") is not None:
                continue
            n.set("minOccurs", "0")
        elif n.tag == X + "attribute":
            if n.getparent() is not root and n.get("use") == "required":
                n.set("use", "optional")


def _add_probes(doc):
    root = doc.getroot()
    existing = {n.get("name") for n in root.findall(X + "element")}
    tns_pfx = None
    tns = root.get("targetNamespace")
    for pfx, uri in root.nsmap.items():
        if uri == tns:
            tns_pfx = pfx
            break
    for n in list(root):
        if not isinstance(n.tag, str):
            continue
        if n.tag in (X + "complexType", X + "simpleType") and n.get("name"):
            pname = "__" + n.get("name")
            if pname in existing:
                continue
            el = etree.SubElement(root, X + "element")
            el.set("name", pname)
            el.set("type", (tns_pfx + ":" if tns_pfx else "") + n.get("name"))


_TMPDIRS = []


def _cleanup():
    for d in _TMPDIRS:
        shutil.rmtree(d, ignore_errors=True)


atexit.register(_cleanup)


class SchemaSet:
    _cache = {}

    @classmethod
    def get(cls, relaxed=False):
        key = (relaxed, os.getpid())
        k2 = relaxed
        if k2 not in cls._cache:
            cls._cache[k2] = cls(relaxed)
        return cls._cache[k2]

    def __init__(self, relaxed=False):
        self.relaxed = relaxed
        d = tempfile.mkdtemp(prefix="verif-xsd-")
        _TMPDIRS.append(d)
        self.dir = d
        self._owner_pid = os.getpid()
        for fn in sorted(os.listdir(XSD_DIR)):
            if not fn.endswith(".xsd"):
                continue
            doc = etree.parse(os.path.join(XSD_DIR, fn))
            if relaxed:
                _relax(doc)
            _add_probes(doc)
            doc.write(os.path.join(d, fn), xml_declaration=True, encoding="UTF-8")
        self.schema = etree.XMLSchema(etree.parse(os.path.join(d, "pml.xsd")))
        # files are only needed while compiling
        shutil.rmtree(d, ignore_errors=True)

    def errors(self, root):
        """Validate an element tree whose root is a global element (p:sld, c:chartSpace, a:theme or a probe).
        Returns list of (path, message)."""
        doc = root if isinstance(root, etree._ElementTree) else etree.ElementTree(root)
        if self.schema.validate(doc):
            return []
        return [(e.path or "", e.message) for e in self.schema.error_log]

    def fragment_errors(self, el, ctype):
        """Validate a copy of element `el` as complex type `ctype` = (ns, name)."""
        c = _bare_copy(el)
        c.tag = "{%s}__%s" % ctype
        return self.errors(c)

    def value_ok(self, stype, text):
        ns, name = stype
        if ns == "xsd" or ns == XS:
            return _builtin_ok(name, text)
        el = etree.Element("{%s}__%s" % (ns, name))
        el.text = text
        return self.schema.validate(etree.ElementTree(el))


_bare_parser = etree.XMLParser(remove_blank_text=False, resolve_entities=False)


def _bare_copy(el):
    """Deep copy through serialisation with a bare parser: drops custom element classes."""
    return etree.fromstring(etree.tostring(el), _bare_parser)


def _builtin_ok(name, text):
    try:
        if name in ("string", "token", "normalizedString", "anyURI", "NCName", "ID"):
            return True
        if name in ("int", "integer", "long", "short", "byte"):
            v = int(text.strip())
            lim = {"int": 2 ** 31, "long": 2 ** 63, "short": 2 ** 15, "byte": 2 ** 7}.get(name)
            return lim is None or -lim <= v < lim
        if name in ("unsignedInt", "unsignedLong", "unsignedShort", "unsignedByte", "nonNegativeInteger", "positiveInteger"):
            if not re.fullmatch(r"\s*\+?\d+\s*", text):
                return False
            v = int(text)
            lim = {"unsignedInt": 2 ** 32, "unsignedLong": 2 ** 64, "unsignedShort": 2 ** 16, "unsignedByte": 2 ** 8}.get(name)
            if name == "positiveInteger" and v < 1:
                return False
            return lim is None or v < lim
        if name == "boolean":
            return text.strip() in ("true", "false", "1", "0")
        if name in ("double", "float", "decimal"):
            t = text.strip()
            if name != "decimal" and t in ("INF", "-INF", "NaN"):
                return True
            if name == "decimal":
                return bool(re.fullmatch(r"[+-]?(\d+(\.\d*)?|\.\d+)", t))
            return bool(re.fullmatch(r"[+-]?(\d+(\.\d*)?|\.\d+)([eE][+-]?\d+)?", t))
        if name == "hexBinary":
            return bool(re.fullmatch(r"([0-9a-fA-F]{2})*", text.strip()))
        if name == "dateTime":
            return bool(re.fullmatch(r"-?\d{4,}-\d\d-\d\dT\d\d:\d\d:\d\d(\.\d+)?(Z|[+-]\d\d:\d\d)?", text.strip()))
    except ValueError:
        return False
    return True


# ---- markup compatibility preprocessing ------------------------------------------------------------
NS_MC = "http://schemas.openxmlformats.org/markup-compatibility/2006"


def mce_preprocess(root):
    """Return a bare copy of `root` with mc:AlternateContent replaced by its mc:Fallback content (or
    removed), elements/attributes of mc:Ignorable namespaces dropped, and mc:* attributes removed."""
    root = _bare_copy(root)
    ignorable = set()
    for el in root.iter():
        if not isinstance(el.tag, str):
            continue
        ign = el.get("{%s}Ignorable" % NS_MC)
        if ign:
            for pfx in ign.split():
                uri = el.nsmap.get(pfx)
                if uri:
                    ignorable.add(uri)
    # AlternateContent -> Fallback children
    changed = True
    while changed:
        changed = False
        for ac in list(root.iter("{%s}AlternateContent" % NS_MC)):
            parent = ac.getparent()
            if parent is None:
                continue
            fb = ac.find("{%s}Fallback" % NS_MC)
            idx = parent.index(ac)
            kids = list(fb) if fb is not None else []
            parent.remove(ac)
            for i, k in enumerate(kids):
                parent.insert(idx + i, k)
            changed = True
            break
    for el in list(root.iter()):
        if not isinstance(el.tag, str):
            # comments / PIs are not schema content
            continue
        q = etree.QName(el.tag)
        if q.namespace in ignorable and el.getparent() is not None:
            el.getparent().remove(el)
            continue
        for k in list(el.attrib):
            kq = etree.QName(k)
            if kq.namespace == NS_MC or kq.namespace in ignorable:
                del el.attrib[k]
    return root


_num = re.compile(r"\d+")


def normalise_errors(errs):
    """Error set with positional indices stripped from paths (messages verbatim), for error-set comparison."""
    out = set()
    for path, msg in errs:
        p = re.sub(r"\[\d+\]", "", path)
        p = re.sub(r"\*\[local-name\(\)='([^']+)'\]", r"\1", p)
        out.add((p, msg))
    return out
