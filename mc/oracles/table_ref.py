"""table_ref — a boring reference model of a DrawingML table under merge / split / resize.

Independent of python-pptx (imports nothing from it).  The model is what the C14 property statement
says, nothing more:

* an r x c grid; every grid cell is either independent or belongs to exactly one merged region, a
  rectangle (top, left, height, width) with height*width >= 2 whose top-left cell is the origin;
* `merge(a, b)` takes the bounding rectangle of the two corner cells (any of the four orientations);
  it is REFUSED when any cell of the rectangle already belongs to a merged region (this includes a
  rectangle that partially overlaps, is contained in, or fully contains an existing region) and when
  the other cell is not a cell of this table; a refused operation changes nothing;
* a merge of one unmerged cell with itself creates no region (outcome "noop": the implementation may
  either do nothing or refuse — the statement does not say; both leave the table unchanged);
* on a successful merge the paragraphs of the cells of the rectangle are moved to the origin in
  reading order (row-major); a cell that holds nothing but one empty paragraph contributes nothing;
  all other cells of the region are left empty (one empty paragraph);
* `split(a)` is refused unless `a` is the origin of a region; otherwise the region disappears and
  all its cells are independent again (text stays where it is: in the former origin);
* row heights / column widths are plain integers; the frame size is their sum (for a table loaded from
  a file: from the first assignment of a width / height on, `sync_w` / `sync_h`);
* the CALLER may resize the graphic frame (`X` / `Y` below): the columns / rows are not rescaled by that, so
  from then on nothing is known about frame width (height) vs the sum (`sync_w` / `sync_h` False unless the
  value assigned happens to be the sum) — until the next assignment of a column width (row height), after
  which the frame width (height) is the sum again.  That is the statement's last clause and nothing more:
  while out of sync the model demands nothing of the frame size;
* `set_regions()` installs pre-existing merged regions (tables taken from PowerPoint-authored decks).

Operations are tuples (JSON-able as lists):
    ("m", ra, ca, rb, cb)    cell(ra,ca).merge(cell(rb,cb))
    ("s", ra, ca)            cell(ra,ca).split()
    ("f", ra, ca, d)         merge between cell(ra,ca) of this table and a cell of ANOTHER table
                             (d=0: this.merge(foreign), d=1: foreign.merge(this))
    ("h", i, v)              rows[i].height = v
    ("w", j, v)              columns[j].width = v
    ("X", v)                 graphic_frame.width = v   (the caller resizes the frame)
    ("Y", v)                 graphic_frame.height = v
"""

from __future__ import annotations

OK, NOOP, REFUSE = "ok", "noop", "refuse"


class TableRef:
    __slots__ = ("r", "c", "widths", "heights", "region", "paras", "sync_w", "sync_h")

    def __init__(self, r, c, widths, heights, paras):
        self.r, self.c = r, c
        self.widths = list(widths)
        self.heights = list(heights)
        # region[i][j] is None (independent cell) or (top, left, height, width)
        self.region = [[None] * c for _ in range(r)]
        # paras[i][j] is the list of paragraph strings of the cell (never empty: [""] = empty cell)
        self.paras = [[list(paras[i][j]) or [""] for j in range(c)] for i in range(r)]
        # is the frame width/height known to equal the sum?  True for a table created through the API; for
        # a table loaded from a file it is whatever the file says until the first width/height assignment
        self.sync_w = self.sync_h = True

    def set_regions(self, rects):
        """Install pre-existing regions; return False when they are not disjoint rectangles inside the grid."""
        for top, left, h, w in rects:
            if h * w < 2 or top < 0 or left < 0 or top + h > self.r or left + w > self.c:
                return False
            for i in range(top, top + h):
                for j in range(left, left + w):
                    if self.region[i][j] is not None:
                        return False
                    self.region[i][j] = (top, left, h, w)
        return True

    def copy(self):
        m = TableRef.__new__(TableRef)
        m.r, m.c = self.r, self.c
        m.widths = list(self.widths)
        m.heights = list(self.heights)
        m.region = [list(row) for row in self.region]
        m.paras = [[list(p) for p in row] for row in self.paras]
        m.sync_w, m.sync_h = self.sync_w, self.sync_h
        return m

    def fingerprint(self):
        """Hashable value identifying the abstract state."""
        return (tuple(tuple(row) for row in self.region),
                tuple(tuple(tuple(p) for p in row) for row in self.paras),
                tuple(self.widths), tuple(self.heights), self.sync_w, self.sync_h)

    # ---- queries -----------------------------------------------------------------------------
    def regions(self):
        """Set of (top, left, height, width) of all merged regions."""
        return {g for row in self.region for g in row if g is not None}

    def is_origin(self, i, j):
        g = self.region[i][j]
        return g is not None and (g[0], g[1]) == (i, j)

    def is_spanned(self, i, j):
        g = self.region[i][j]
        return g is not None and (g[0], g[1]) != (i, j)

    def frame(self):
        return sum(self.widths), sum(self.heights)

    @staticmethod
    def rect(ra, ca, rb, cb):
        top, left = min(ra, rb), min(ca, cb)
        return top, left, abs(ra - rb) + 1, abs(ca - cb) + 1

    def why(self, op):
        """A short stable token describing the class of the operation in this state."""
        k = op[0]
        if k == "m":
            top, left, h, w = self.rect(*op[1:5])
            hit = {self.region[i][j] for i in range(top, top + h) for j in range(left, left + w)} - {None}
            if not hit:
                return "self-merge" if h * w == 1 else "free-range"
            inside = all(g[0] >= top and g[1] >= left and g[0] + g[2] <= top + h and g[1] + g[3] <= left + w
                         for g in hit)
            if h * w == 1:
                return "merge-merged-cell-with-itself"
            if inside:
                return "range-contains-region"
            if len(hit) == 1:
                g = next(iter(hit))
                if top >= g[0] and left >= g[1] and top + h <= g[0] + g[2] and left + w <= g[1] + g[3]:
                    return "range-inside-region"
            return "range-overlaps-region"
        if k == "s":
            i, j = op[1], op[2]
            if self.is_origin(i, j):
                return "split-origin"
            return "split-spanned" if self.is_spanned(i, j) else "split-unmerged"
        if k == "f":
            return "foreign"
        if k in ("X", "Y"):
            return "frame-resize"
        return "resize"

    # ---- transitions --------------------------------------------------------------------------
    def predict(self, op):
        """Return (label, successor model).  label in OK / NOOP / REFUSE; for NOOP and REFUSE the
        successor is `self` (nothing changes)."""
        k = op[0]
        if k == "m":
            top, left, h, w = self.rect(*op[1:5])
            cells = [(i, j) for i in range(top, top + h) for j in range(left, left + w)]
            if any(self.region[i][j] is not None for i, j in cells):
                return REFUSE, self
            if len(cells) == 1:
                return NOOP, self
            n = self.copy()
            moved = []
            for i, j in cells:
                ps = n.paras[i][j]
                if ps != [""]:
                    moved.extend(ps)
                n.paras[i][j] = [""]
                n.region[i][j] = (top, left, h, w)
            n.paras[top][left] = moved or [""]
            return OK, n
        if k == "s":
            i, j = op[1], op[2]
            if not self.is_origin(i, j):
                return REFUSE, self
            top, left, h, w = self.region[i][j]
            n = self.copy()
            for a in range(top, top + h):
                for b in range(left, left + w):
                    n.region[a][b] = None
            return OK, n
        if k == "f":
            return REFUSE, self
        if k == "h":
            n = self.copy()
            n.heights[op[1]] = op[2]
            n.sync_h = True
            return OK, n
        if k == "w":
            n = self.copy()
            n.widths[op[1]] = op[2]
            n.sync_w = True
            return OK, n
        if k == "X":
            n = self.copy()
            n.sync_w = op[1] == sum(n.widths)
            return OK, n
        if k == "Y":
            n = self.copy()
            n.sync_h = op[1] == sum(n.heights)
            return OK, n
        raise ValueError("unknown op %r" % (op,))


def nonempty(paragraphs):
    """Weak reading of 'all text ... in reading order': the sequence of non-empty paragraph texts."""
    return [p for p in paragraphs if p != ""]


def op_str(op):
    k = op[0]
    if k == "m":
        return "m%d%d-%d%d" % tuple(op[1:5])
    if k == "s":
        return "s%d%d" % (op[1], op[2])
    if k == "f":
        return "f%d%d%s" % (op[1], op[2], ">" if op[3] == 0 else "<")
    if k in ("X", "Y"):
        return "%s=%d" % (k, op[1])
    return "%s%d=%d" % (k, op[1], op[2])
