"""text_ref -- reference model for property C04, written from the property statement only.

    "in a frame or cell a newline separates paragraphs and a vertical tab is a line break; in a
     paragraph both become a line break (read back as a vertical tab); in a run both stay characters;
     every other C0 control character (and a vertical tab inside a run) becomes its _xHHHH_ escape;
     leading, trailing and whitespace-only content is kept. The body then holds exactly one paragraph
     per frame-level segment and one line-break element per break ..."

Nothing here imports python-pptx. The XML reader (`observe`) works on a *bare* lxml tree.

The horizontal tab is the one place where the statement ("every other C0 control character") and the
docstrings of the library ("other than newline, tab, or vertical-tab") disagree: both readings are
accepted (`readings()` returns the two candidates; they are equal for tab-free strings).
"""

from __future__ import annotations

A = "http://schemas.openxmlformats.org/drawingml/2006/main"
P = "http://schemas.openxmlformats.org/presentationml/2006/main"
A_P, A_R, A_BR, A_FLD, A_T, A_PPR = ("{%s}%s" % (A, n) for n in ("p", "r", "br", "fld", "t", "pPr"))

LEVELS = ("frame", "cell", "para", "run")


def escape(c: str) -> str:
    return "_x%04X_" % ord(c)


def translate(level: str, s: str, tab_escaped: bool = False) -> str:
    """The string the getter of `level` returns after `s` was assigned at `level`."""
    out = []
    for c in s:
        o = ord(c)
        if o >= 0x20:
            out.append(c)
        elif c == "\n":
            out.append("\v" if level == "para" else "\n")
        elif c == "\v":
            out.append(escape(c) if level == "run" else "\v")
        elif c == "\t":
            out.append(escape(c) if tab_escaped else c)
        else:
            out.append(escape(c))
    return "".join(out)


def readings(level: str, s: str):
    """Acceptable read-back values (1 or 2: tab kept / tab escaped)."""
    a = translate(level, s, False)
    if "\t" not in s:
        return (a,)
    return (a, translate(level, s, True))


def frame_segments(s: str):
    """Frame/cell level: list of (paragraph source segment, number of line breaks in it)."""
    return [(seg, seg.count("\v")) for seg in s.split("\n")]


def para_breaks(s: str) -> int:
    return s.count("\n") + s.count("\v")


# ---- reading a text body from a bare lxml tree -------------------------------------------------------

def _t_text(el) -> str:
    t = el.find(A_T)
    if t is None:
        return ""
    return t.text or ""


def observe(txbody):
    """[{'ppr': c14n bytes | None, 'items': [('r', text) | ('br',) | ('fld', text)]}] per a:p child."""
    from lxml import etree
    out = []
    for p in txbody:
        if p.tag != A_P:
            continue
        ppr = None
        n_ppr = 0
        items = []
        for ch in p:
            if ch.tag == A_PPR:
                n_ppr += 1
                ppr = etree.tostring(ch, method="c14n", exclusive=True)
            elif ch.tag == A_R:
                items.append(("r", _t_text(ch)))
            elif ch.tag == A_BR:
                items.append(("br",))
            elif ch.tag == A_FLD:
                items.append(("fld", _t_text(ch)))
        out.append({"ppr": ppr, "n_ppr": n_ppr, "items": items})
    return out


def para_text(par) -> str:
    return "".join("\v" if it[0] == "br" else it[1] for it in par["items"])


def n_breaks(par) -> int:
    return sum(1 for it in par["items"] if it[0] == "br")


def first_run_index(par):
    for i, it in enumerate(par["items"]):
        if it[0] == "r":
            return i
    return None


class Expect:
    """Prediction for one assignment on an observed pre-state.

    para_texts : list (per paragraph) of tuples of acceptable texts
    breaks     : list (per paragraph) of the exact number of a:br children
    level_text : tuple of acceptable getter values at the assigned level
    ppr        : (paragraph index, c14n) that must be unchanged, or None
    """

    __slots__ = ("para_texts", "breaks", "level_text", "ppr")


def predict(pre, level: str, s: str, pi: int = 0) -> Expect:
    """`pre` = observe(body before the assignment; for level 'run' *after* the target run exists).

    level frame/cell: the whole body is replaced. level para: paragraph `pi` is replaced, the other
    paragraphs keep their text and breaks, paragraph `pi` keeps its a:pPr. level run: the first a:r of
    paragraph `pi` gets the new text; everything else keeps its text.
    """
    e = Expect()
    e.ppr = None
    if level in ("frame", "cell"):
        segs = frame_segments(s)
        e.para_texts = [readings("frame", seg) for seg, _ in segs]
        e.breaks = [nb for _, nb in segs]
        e.level_text = readings("frame", s)
        return e
    e.para_texts = [(para_text(p),) for p in pre]
    e.breaks = [n_breaks(p) for p in pre]
    if level == "para":
        e.para_texts[pi] = readings("para", s)
        e.breaks[pi] = para_breaks(s)
        e.level_text = e.para_texts[pi]
        if pre[pi]["ppr"] is not None:
            e.ppr = (pi, pre[pi]["ppr"])
        return e
    if level == "run":
        par = pre[pi]
        k = first_run_index(par)
        if k is None:
            raise ValueError("no run in target paragraph")
        before = "".join("\v" if it[0] == "br" else it[1] for it in par["items"][:k])
        after = "".join("\v" if it[0] == "br" else it[1] for it in par["items"][k + 1:])
        e.level_text = readings("run", s)
        e.para_texts[pi] = tuple(before + r + after for r in e.level_text)
        return e
    raise ValueError(level)


def frame_texts(para_texts):
    """Acceptable frame-level texts given per-paragraph alternatives (kept small: <=2 per paragraph,
    and alternatives only arise from tabs, which are all kept or all escaped)."""
    first = "\n".join(t[0] for t in para_texts)
    last = "\n".join(t[-1] for t in para_texts)
    return (first,) if first == last else (first, last)
