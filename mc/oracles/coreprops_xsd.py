"""Validator for docProps/core.xml against spec/ISO-IEC-29500-2/opc-xsd/opc-coreProperties.xsd.

The standard's schema imports the Dublin Core schemas (dc, dcterms) by HTTP URL and xml.xsd without a
location. Neither can be fetched here, so the schema is compiled at check time from a temporary copy
whose three `xs:import`s point at the stub schemas in /verif/schemas (dc.xsd, dcterms.xsd, xml.xsd:
trusted base, written after the published 2003-04-02 DCMI schemas). The temporary directory is
removed as soon as libxml2 has compiled the schema. libxml2 decides validity, not python-pptx.
"""

from __future__ import annotations

import os
import re
import shutil
import tempfile

from lxml import etree

VERIF = os.path.dirname(os.path.dirname(os.path.dirname(os.path.abspath(__file__))))
STUB_DIR = os.path.join(VERIF, "schemas")
REPO = os.environ.get("VERIF_REPO", "/repo")
# the standard's schema is read from the pinned checkout (spec/ is not library code)
XSD_PATH = os.path.join(REPO, "spec", "ISO-IEC-29500-2", "opc-xsd", "opc-coreProperties.xsd")

NS_CP = "http://schemas.openxmlformats.org/package/2006/metadata/core-properties"
NS_DC = "http://purl.org/dc/elements/1.1/"
NS_DCTERMS = "http://purl.org/dc/terms/"
NS_XSI = "http://www.w3.org/2001/XMLSchema-instance"
NS_XML = "http://www.w3.org/XML/1998/namespace"
XS = "http://www.w3.org/2001/XMLSchema"

_STUBS = {NS_DC: "dc.xsd", NS_DCTERMS: "dcterms.xsd", NS_XML: "xml.xsd"}
_parser = etree.XMLParser(resolve_entities=False, no_network=True)

_SCHEMA = None


class SchemaSetupError(Exception):
    pass


def _compile():
    if not os.path.exists(XSD_PATH):
        # a scratch worktree always has spec/, but fall back to /repo to stay usable
        alt = "/repo/spec/ISO-IEC-29500-2/opc-xsd/opc-coreProperties.xsd"
        path = alt
    else:
        path = XSD_PATH
    tree = etree.parse(path, _parser)
    root = tree.getroot()
    rewritten = 0
    for imp in root.iter("{%s}import" % XS):
        ns = imp.get("namespace")
        if ns not in _STUBS:
            raise SchemaSetupError("unexpected xs:import of %r in %s" % (ns, path))
        imp.set("schemaLocation", _STUBS[ns])
        rewritten += 1
    if rewritten != 3:
        raise SchemaSetupError("expected 3 imports in core-properties schema, found %d" % rewritten)
    d = tempfile.mkdtemp(prefix="verif-c18-xsd-")
    try:
        for fn in _STUBS.values():
            shutil.copy(os.path.join(STUB_DIR, fn), os.path.join(d, fn))
        p = os.path.join(d, "opc-coreProperties.xsd")
        tree.write(p, xml_declaration=True, encoding="UTF-8")
        schema = etree.XMLSchema(etree.parse(p, _parser))
    finally:
        shutil.rmtree(d, ignore_errors=True)
    return schema


def schema():
    global _SCHEMA
    if _SCHEMA is None:
        _SCHEMA = _compile()
    return _SCHEMA


_EL = re.compile(r"Element '(?:\{([^}]*)\})?([^']*)'")


def _kind(msg: str) -> str:
    if "xsi:type" in msg or "XMLSchema-instance}type" in msg:
        return "xsi-type"
    if "is not a valid value" in msg:
        return "invalid-value"
    if "not expected" in msg:
        return "not-expected"
    if "not allowed" in msg:
        return "not-allowed"
    if "Missing child" in msg:
        return "missing-child"
    return "other"


def errors(blob: bytes):
    """List of (namespace, localname, kind, message) for every schema error of a core.xml blob.

    An unparseable blob gives one entry with kind "not-well-formed".
    """
    try:
        doc = etree.fromstring(blob, _parser)
    except etree.XMLSyntaxError as e:
        return [("", "", "not-well-formed", str(e))]
    s = schema()
    if s.validate(doc):
        return []
    out = []
    for e in s.error_log:
        m = _EL.search(e.message)
        ns, local = (m.group(1) or "", m.group(2)) if m else ("", "")
        # libxml2 reports a follow-up "is not a valid value of the atomic type" line for the same
        # element after the union member message; keep both, the caller dedupes by element
        out.append((ns, local, _kind(e.message), e.message))
    return out


def self_test():
    """Floor for the oracle: known-valid and known-invalid documents; returns list of failures."""
    nsd = ('xmlns:cp="%s" xmlns:dc="%s" xmlns:dcterms="%s" xmlns:xsi="%s"' % (NS_CP, NS_DC, NS_DCTERMS, NS_XSI))

    def doc(body):
        return ("<cp:coreProperties %s>%s</cp:coreProperties>" % (nsd, body)).encode()

    W = '<dcterms:%s xsi:type="dcterms:W3CDTF">%s</dcterms:%s>'
    good = [
        "", "<dc:title>x</dc:title>", '<dc:title xml:lang="en">x</dc:title>',
        "<cp:keywords>a</cp:keywords><cp:category>b</cp:category><dc:creator/>",
        W % ("created", "2001", "created"), W % ("created", "2001-02", "created"),
        W % ("modified", "2001-02-03", "modified"), W % ("created", "2001-02-03T04:05:06Z", "created"),
        W % ("created", "2001-02-03T04:05:06.5+14:00", "created"),
        "<cp:lastPrinted>2001-02-03T04:05:06Z</cp:lastPrinted>", "<cp:revision>7</cp:revision>",
        "<dcterms:created>anything</dcterms:created>",
    ]
    bad = [
        ("<dc:title>x</dc:title><dc:title>y</dc:title>", "title", "not-expected"),
        ("<dc:title><b/></dc:title>", "b", "not-expected"),
        (W % ("created", "999-02-03T04:05:06Z", "created"), "created", "invalid-value"),
        (W % ("created", "2001-02-03T04:05Z", "created"), "created", "invalid-value"),
        ("<cp:lastPrinted>999-02-03T04:05:06Z</cp:lastPrinted>", "lastPrinted", "invalid-value"),
        ("<cp:lastPrinted>2001-02-03</cp:lastPrinted>", "lastPrinted", "invalid-value"),
        ('<cp:lastPrinted xsi:type="dcterms:W3CDTF">2001-02-03T04:05:06Z</cp:lastPrinted>', "lastPrinted", "xsi-type"),
        ("<cp:bogus/>", "bogus", "not-expected"),
        ("<cp:revision>1</cp:revision><cp:revision>2</cp:revision>", "revision", "not-expected"),
    ]
    fails = []
    for b in good:
        e = errors(doc(b))
        if e:
            fails.append("valid document rejected: %s -> %s" % (b, e[0][3]))
    for b, local, kind in bad:
        e = errors(doc(b))
        if not e:
            fails.append("invalid document accepted: %s" % b)
        elif not any(x[1] == local and x[2] == kind for x in e):
            fails.append("invalid document %s: expected (%s,%s), got %r" % (b, local, kind, [(x[1], x[2]) for x in e]))
    if errors(b"<a>")[0][2] != "not-well-formed":
        fails.append("not-well-formed not reported")
    return fails
