"""Minimal, independent SpreadsheetML reader (reference model for C08).

Reads an .xlsx blob with `zipfile` + bare `lxml.etree` only (no XlsxWriter, no python-pptx):

* `xl/workbook.xml` -> sheet name -> relationship id -> `xl/_rels/workbook.xml.rels` -> sheet member
  (so "Sheet1" in a reference is resolved the way a consumer resolves it, not assumed to be sheet1.xml),
  `workbookPr/@date1904`;
* `xl/sharedStrings.xml` (plain and rich-text items; phonetic runs skipped);
* the sheet's `sheetData/row/c` cells: shared strings (`t="s"`), inline strings (`t="inlineStr"`), formula
  strings (`t="str"`), booleans, errors, numbers, blank cells; a cell with an `<f>` child is flagged as a
  FORMULA cell (its `<v>` is only a cached result); hyperlink cells are noted from `<hyperlinks>`.

Also: an independent A1 reference parser and an independent column-number <-> letters conversion.
"""

from __future__ import annotations

import io
import posixpath
import re
import zipfile

from lxml import etree

NS_S = "http://schemas.openxmlformats.org/spreadsheetml/2006/main"
NS_R = "http://schemas.openxmlformats.org/officeDocument/2006/relationships"
NS_PR = "http://schemas.openxmlformats.org/package/2006/relationships"
S = "{%s}" % NS_S

_parser = etree.XMLParser(remove_blank_text=False, resolve_entities=False)

MAX_COL = 16384
MAX_ROW = 1048576


class XlsxError(Exception):
    """The blob is not a readable workbook (or a reference cannot be parsed)."""


# ---- column arithmetic (independent of the library's algorithm) ---------------------------------------

def col_letters(n: int) -> str:
    """Column number (1-based) -> letters. Block method: 26 one-letter names, 26^2 two-letter names,
    26^3 three-letter names; inside a block the name is a fixed-width base-26 numeral over A..Z."""
    if not (1 <= n <= MAX_COL):
        raise ValueError(n)
    width, block = 1, 26
    k = n - 1
    while k >= block:
        k -= block
        width += 1
        block *= 26
    digits = []
    for _ in range(width):
        digits.append("ABCDEFGHIJKLMNOPQRSTUVWXYZ"[k % 26])
        k //= 26
    return "".join(reversed(digits))


def col_number(letters: str) -> int:
    """Letters -> column number (1-based): sum of letter_value * 26^position (bijective numeral)."""
    if not letters or not re.fullmatch(r"[A-Z]{1,3}", letters):
        raise XlsxError("bad column letters %r" % (letters,))
    n = 0
    for ch in letters:
        n = n * 26 + (ord(ch) - 64)
    if n > MAX_COL:
        raise XlsxError("column %r beyond XFD" % (letters,))
    return n


_CELL = r"\$?([A-Z]{1,3})\$?([0-9]{1,7})"
_REF = re.compile(r"^(?:(?:'((?:[^']|'')+)'|([^'!:]+))!)?%s(?::%s)?$" % (_CELL, _CELL))


def parse_ref(text: str):
    """'Sheet1!$B$2:$B$4' -> (sheet, col1, row1, col2, row2); a single cell gives col2=col1,row2=row1.
    Corners are returned AS WRITTEN (not normalised), so that a writer producing an inverted range can be
    seen by the caller."""
    m = _REF.match(text.strip())
    if not m:
        raise XlsxError("cannot parse reference %r" % (text,))
    sheet = m.group(1).replace("''", "'") if m.group(1) is not None else m.group(2)
    c1, r1 = col_number(m.group(3)), int(m.group(4))
    if m.group(5) is None:
        c2, r2 = c1, r1
    else:
        c2, r2 = col_number(m.group(5)), int(m.group(6))
    for r in (r1, r2):
        if not (1 <= r <= MAX_ROW):
            raise XlsxError("row out of range in %r" % (text,))
    return sheet, c1, r1, c2, r2


def split_cell(ref: str):
    m = re.fullmatch(_CELL, ref)
    if not m:
        raise XlsxError("bad cell reference %r" % (ref,))
    return col_number(m.group(1)), int(m.group(2))


# ---- cells ----------------------------------------------------------------------------------------------

class Cell:
    """kind: 'number' | 'string' | 'bool' | 'error' | 'blank' | 'formula'.
    value: float for number, str for string/error, bool for bool, None for blank; for a formula cell the
    cached result (may be None). formula: text of <f> or None. hyperlink: True if listed in <hyperlinks>."""

    __slots__ = ("kind", "value", "formula", "hyperlink", "ref")

    def __init__(self, kind, value, formula=None, hyperlink=False, ref=None):
        self.kind = kind
        self.value = value
        self.formula = formula
        self.hyperlink = hyperlink
        self.ref = ref

    def __repr__(self):
        extra = ""
        if self.formula is not None:
            extra += " f=%r" % self.formula
        if self.hyperlink:
            extra += " hyperlink"
        return "<%s %s %r%s>" % (self.ref, self.kind, self.value, extra)


BLANK = Cell("blank", None)


class Sheet:
    def __init__(self, name, member):
        self.name = name
        self.member = member
        self.cells = {}  # (col, row) -> Cell

    def cell(self, col, row):
        return self.cells.get((col, row), BLANK)


class Workbook:
    def __init__(self):
        self.sheets = {}  # name -> Sheet
        self.date1904 = False
        self.members = []

    def sheet(self, name):
        if name is None:
            if len(self.sheets) == 1:
                return next(iter(self.sheets.values()))
            raise XlsxError("reference without sheet name in a multi-sheet workbook")
        s = self.sheets.get(name)
        if s is None:
            raise XlsxError("no sheet named %r (have %r)" % (name, sorted(self.sheets)))
        return s


def _si_text(si):
    """Text of a shared-string / inline-string item: <t>, or the concatenation of r/t (rPh skipped)."""
    t = si.find(S + "t")
    if t is not None and si.find(S + "r") is None:
        return t.text or ""
    parts = []
    if t is not None:
        parts.append(t.text or "")
    for r in si.findall(S + "r"):
        rt = r.find(S + "t")
        if rt is not None:
            parts.append(rt.text or "")
    return "".join(parts)


def _truthy(v):
    return v is not None and v.strip().lower() in ("1", "true", "on")


def read(blob: bytes) -> Workbook:
    try:
        z = zipfile.ZipFile(io.BytesIO(blob))
    except Exception as e:
        raise XlsxError("not a zip: %r" % (e,))
    names = set(z.namelist())
    wb = Workbook()
    wb.members = sorted(names)

    def xml(member):
        if member not in names:
            raise XlsxError("workbook lacks member %s" % member)
        return etree.fromstring(z.read(member), _parser)

    wroot = xml("xl/workbook.xml")
    pr = wroot.find(S + "workbookPr")
    wb.date1904 = pr is not None and _truthy(pr.get("date1904"))
    rels = {}
    if "xl/_rels/workbook.xml.rels" in names:
        for rel in xml("xl/_rels/workbook.xml.rels"):
            if isinstance(rel.tag, str) and rel.get("TargetMode") != "External":
                tgt = rel.get("Target")
                tgt = tgt[1:] if tgt.startswith("/") else posixpath.normpath(posixpath.join("xl", tgt))
                rels[rel.get("Id")] = tgt

    shared = []
    if "xl/sharedStrings.xml" in names:
        for si in xml("xl/sharedStrings.xml").findall(S + "si"):
            shared.append(_si_text(si))

    sheets_el = wroot.find(S + "sheets")
    for sh in (sheets_el if sheets_el is not None else []):
        if not isinstance(sh.tag, str):
            continue
        name = sh.get("name")
        member = rels.get(sh.get("{%s}id" % NS_R))
        if member is None:
            raise XlsxError("sheet %r has no resolvable relationship" % (name,))
        sheet = Sheet(name, member)
        root = xml(member)
        links = set()
        hl = root.find(S + "hyperlinks")
        if hl is not None:
            for h in hl.findall(S + "hyperlink"):
                ref = h.get("ref") or ""
                a, _, b = ref.partition(":")
                c1, r1 = split_cell(a)
                c2, r2 = split_cell(b) if b else (c1, r1)
                for cc in range(min(c1, c2), max(c1, c2) + 1):
                    for rr in range(min(r1, r2), max(r1, r2) + 1):
                        links.add((cc, rr))
        data = root.find(S + "sheetData")
        next_row = 1
        for row in (data.findall(S + "row") if data is not None else []):
            rnum = int(row.get("r")) if row.get("r") else next_row
            next_row = rnum + 1
            next_col = 1
            for c in row.findall(S + "c"):
                if c.get("r"):
                    col, rr = split_cell(c.get("r"))
                    if rr != rnum:
                        raise XlsxError("cell %s in row %d" % (c.get("r"), rnum))
                else:
                    col = next_col
                next_col = col + 1
                t = c.get("t") or "n"
                v = c.find(S + "v")
                vtext = v.text if v is not None else None
                f = c.find(S + "f")
                if t == "s":
                    try:
                        kind, value = "string", shared[int(vtext)]
                    except (TypeError, ValueError, IndexError):
                        raise XlsxError("bad shared-string index %r at %s" % (vtext, c.get("r")))
                elif t == "inlineStr":
                    is_ = c.find(S + "is")
                    kind, value = "string", (_si_text(is_) if is_ is not None else "")
                elif t == "str":
                    kind, value = "string", (vtext or "")
                elif t == "b":
                    kind, value = "bool", _truthy(vtext)
                elif t == "e":
                    kind, value = "error", vtext
                elif t == "n":
                    if vtext is None or vtext.strip() == "":
                        kind, value = "blank", None
                    else:
                        try:
                            kind, value = "number", float(vtext)
                        except ValueError:
                            raise XlsxError("bad number %r at %s" % (vtext, c.get("r")))
                else:
                    raise XlsxError("unknown cell type %r at %s" % (t, c.get("r")))
                formula = None
                if f is not None:
                    formula = f.text or ""
                    kind = "formula"
                cell = Cell(kind, value, formula, (col, rnum) in links, "%s%d" % (col_letters(col), rnum))
                sheet.cells[(col, rnum)] = cell
        wb.sheets[name] = sheet
    if not wb.sheets:
        raise XlsxError("workbook has no sheets")
    return wb
