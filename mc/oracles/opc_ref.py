"""Independent OPC reader: zipfile/os + bare lxml only; uses nothing from pptx.opc.

read(blob_or_dir) -> RefPackage with
  .members        dict membername -> bytes  (as stored; zip names verbatim)
  .dup_members    list of member names stored more than once
  .defaults       dict ext.lower() -> content type   (.default_dups: exts declared twice with different types)
  .overrides      dict partname -> content type  (as written) ; lookups are case-insensitive per OPC
  .rels(source)   list of Rel(id, type, mode, target_raw, target_partname|None) for source partname or '/'
  .reachable()    ordered list of partnames reachable from '/' over internal relationships whose target
                  member exists (dangling ones listed in .dangling())
  .content_type(partname) -> (type|None, how)
"""

from __future__ import annotations

import io
import os
import zipfile
from collections import namedtuple

from lxml import etree

CT_NS = "http://schemas.openxmlformats.org/package/2006/content-types"
REL_NS = "http://schemas.openxmlformats.org/package/2006/relationships"
R_NS = "http://schemas.openxmlformats.org/officeDocument/2006/relationships"
RT_OFFICE_DOCUMENT = "http://schemas.openxmlformats.org/officeDocument/2006/relationships/officeDocument"

Rel = namedtuple("Rel", "id type mode target_raw target")

_parser = etree.XMLParser(resolve_entities=False, remove_blank_text=False)


def remove_dot_segments(path: str) -> str:
    inp, out = path, []
    while inp:
        if inp.startswith("../"):
            inp = inp[3:]
        elif inp.startswith("./"):
            inp = inp[2:]
        elif inp.startswith("/./"):
            inp = inp[2:]
        elif inp == "/.":
            inp = "/"
        elif inp.startswith("/../"):
            inp = inp[3:]
            if out:
                out.pop()
        elif inp == "/..":
            inp = "/"
            if out:
                out.pop()
        elif inp in (".", ".."):
            inp = ""
        else:
            i = inp.find("/", 1) if inp.startswith("/") else inp.find("/")
            if i == -1:
                seg, inp = inp, ""
            else:
                seg, inp = inp[:i], inp[i:]
            out.append(seg)
    return "".join(out)


def resolve(source_partname: str, target: str) -> str:
    if target.startswith("/"):
        return remove_dot_segments(target)
    base = "/" if source_partname == "/" else source_partname[: source_partname.rfind("/") + 1]
    return remove_dot_segments(base + target)


def rels_member_for(partname: str) -> str:
    if partname == "/":
        return "_rels/.rels"
    i = partname.rfind("/")
    return (partname[: i + 1] + "_rels/" + partname[i + 1:] + ".rels")[1:]


class RefPackage:
    def __init__(self, members, dup_members=()):
        self.members = members
        self.dup_members = list(dup_members)
        self._lower = {}
        for k in members:
            self._lower.setdefault(k.lower(), k)
        self.defaults = {}
        self.default_dups = []
        self.overrides = {}
        self.override_dups = []
        self.ct_error = None
        self._parse_content_types()
        self._rels_cache = {}

    # -- content types -----------------------------------------------------------------------------
    def _parse_content_types(self):
        blob = self.members.get("[Content_Types].xml")
        if blob is None:
            self.ct_error = "missing [Content_Types].xml"
            return
        try:
            root = etree.fromstring(blob, _parser)
        except etree.XMLSyntaxError as e:
            self.ct_error = "unparseable [Content_Types].xml: %s" % e
            return
        for el in root:
            if not isinstance(el.tag, str):
                continue
            if el.tag == "{%s}Default" % CT_NS:
                ext = (el.get("Extension") or "").lower()
                ct = el.get("ContentType")
                if ext in self.defaults and self.defaults[ext] != ct:
                    self.default_dups.append(ext)
                elif ext in self.defaults:
                    self.default_dups.append(ext)
                self.defaults[ext] = ct
            elif el.tag == "{%s}Override" % CT_NS:
                pn = el.get("PartName") or ""
                if pn.lower() in {k.lower() for k in self.overrides}:
                    self.override_dups.append(pn)
                self.overrides[pn] = el.get("ContentType")

    def content_type(self, partname: str):
        pl = partname.lower()
        for k, v in self.overrides.items():
            if k.lower() == pl:
                return v, "override"
        name = partname.rsplit("/", 1)[-1]
        if "." in name:
            ext = name.rsplit(".", 1)[1].lower()
            if ext in self.defaults:
                return self.defaults[ext], "default"
        return None, "none"

    # -- members -----------------------------------------------------------------------------------
    def has_part(self, partname: str) -> bool:
        return partname[1:] in self.members

    def has_part_ci(self, partname: str) -> bool:
        return partname[1:].lower() in self._lower

    def blob(self, partname: str) -> bytes:
        return self.members[partname[1:]]

    # -- relationships -----------------------------------------------------------------------------
    def rels(self, source: str):
        if source in self._rels_cache:
            return self._rels_cache[source]
        out = []
        blob = self.members.get(rels_member_for(source))
        if blob is not None:
            root = etree.fromstring(blob, _parser)
            for el in root:
                if not isinstance(el.tag, str) or el.tag != "{%s}Relationship" % REL_NS:
                    continue
                mode = el.get("TargetMode") or "Internal"
                raw = el.get("Target") or ""
                tgt = None if mode == "External" else resolve(source, raw)
                out.append(Rel(el.get("Id"), el.get("Type"), mode, raw, tgt))
        self._rels_cache[source] = out
        return out

    def reachable(self):
        """Partnames reachable from the package root via internal rels with existing targets."""
        seen, order, stack = set(), [], ["/"]
        while stack:
            src = stack.pop()
            for r in self.rels(src):
                if r.mode == "External" or r.target is None:
                    continue
                if not self.has_part(r.target):
                    continue
                if r.target in seen:
                    continue
                seen.add(r.target)
                order.append(r.target)
                stack.append(r.target)
        return order

    def dangling(self):
        out = []
        for src in ["/"] + self.reachable():
            for r in self.rels(src):
                if r.mode != "External" and not self.has_part(r.target):
                    out.append((src, r))
        return out

    def part_members(self):
        """Member names that are parts (not content types, not .rels items)."""
        return [m for m in self.members if m != "[Content_Types].xml" and not _is_rels_member(m)]

    def main_part(self):
        for r in self.rels("/"):
            if r.type == RT_OFFICE_DOCUMENT and r.mode != "External":
                return r.target
        return None


def _is_rels_member(m: str) -> bool:
    if not m.endswith(".rels"):
        return False
    parts = m.split("/")
    return len(parts) >= 2 and parts[-2] == "_rels"


def read(src) -> RefPackage:
    """src: bytes of a zip, a path to a zip, or a path to a directory."""
    if isinstance(src, (bytes, bytearray)):
        return _read_zip(io.BytesIO(bytes(src)))
    if os.path.isdir(src):
        members = {}
        for dirpath, _dirs, files in os.walk(src):
            for fn in files:
                full = os.path.join(dirpath, fn)
                rel = os.path.relpath(full, src).replace(os.sep, "/")
                with open(full, "rb") as f:
                    members[rel] = f.read()
        return RefPackage(members)
    with open(src, "rb") as f:
        return _read_zip(io.BytesIO(f.read()))


def _read_zip(stream) -> RefPackage:
    members, dups = {}, []
    with zipfile.ZipFile(stream) as z:
        for info in z.infolist():
            if info.filename.endswith("/"):
                continue
            if info.filename in members:
                dups.append(info.filename)
            members[info.filename] = z.read(info)
    return RefPackage(members, dups)


# ---- r:* references in part XML -------------------------------------------------------------------

def rid_refs(xml_blob: bytes):
    """All attribute values in the officeDocument relationships namespace (r:id, r:embed, r:link,
    r:pict, r:dm, r:lo, r:qs, r:cs, ...) found in the XML, as (attr-local-name, value, element-tag)."""
    try:
        root = etree.fromstring(xml_blob, _parser)
    except etree.XMLSyntaxError:
        return None
    out = []
    pfx = "{%s}" % R_NS
    for el in root.iter():
        if not isinstance(el.tag, str):
            continue
        for k, v in el.attrib.items():
            if k.startswith(pfx):
                out.append((k[len(pfx):], v, el.tag))
    return out


def is_xml_content_type(ct: str | None) -> bool:
    return bool(ct) and (ct.endswith("+xml") or ct.endswith("/xml"))


def closure_errors(pkg: RefPackage, already_dangling=frozenset(), expected_types=None, require_presentation=True):
    """C02's closure rules on a saved package; returns list of (rule, detail)."""
    errs = []
    for d in pkg.dup_members:
        errs.append(("dup-member", d))
    lowers = {}
    for m in pkg.members:
        if m.lower() in lowers:
            errs.append(("dup-member-ci", "%s ~ %s" % (m, lowers[m.lower()])))
        lowers[m.lower()] = m
    if pkg.ct_error:
        errs.append(("content-types", pkg.ct_error))
        return errs
    for e in pkg.default_dups:
        errs.append(("dup-default", e))
    for e in pkg.override_dups:
        errs.append(("dup-override", e))
    reach = pkg.reachable()
    for m in pkg.part_members():
        pn = "/" + m
        ct, how = pkg.content_type(pn)
        if ct is None:
            errs.append(("no-content-type", pn))
        if expected_types is not None and pn in expected_types and ct != expected_types[pn]:
            errs.append(("content-type-changed", "%s: %s -> %s" % (pn, expected_types[pn], ct)))
        if pn not in reach:
            errs.append(("unreachable-member", pn))
    for pn in pkg.overrides:
        if not pkg.has_part(pn):
            errs.append(("override-for-missing-part", pn))
    for src, r in pkg.dangling():
        if (src, r.id) in already_dangling:
            continue
        errs.append(("dangling-rel", "%s %s -> %s" % (src, r.id, r.target)))
    for src in ["/"] + reach:
        ids = [r.id for r in pkg.rels(src)]
        if len(ids) != len(set(ids)):
            errs.append(("dup-rId", src))
        if src == "/":
            continue
        ct, _ = pkg.content_type(src)
        if not is_xml_content_type(ct):
            continue
        refs = rid_refs(pkg.blob(src))
        if refs is None:
            errs.append(("part-not-wellformed", src))
            continue
        idset = set(ids)
        for attr, val, tag in refs:
            if val == "":
                continue  # r:id="" is PowerPoint's idiom for "no relationship" (e.g. a:hlinkClick action-only)
            if val not in idset and (src, val) not in already_dangling:
                errs.append(("rid-not-in-rels", "%s r:%s=%s on %s" % (src, attr, val, etree.QName(tag).localname)))
    mp = pkg.main_part()
    if mp is None or not pkg.has_part(mp):
        errs.append(("no-office-document", str(mp)))
    elif require_presentation:
        ct, _ = pkg.content_type(mp)
        if not ct or "presentation" not in ct:
            errs.append(("main-part-not-presentation", "%s %s" % (mp, ct)))
    # rels items without a part
    for m in pkg.members:
        if _is_rels_member(m) and m != "_rels/.rels":
            d, fn = m.rsplit("/_rels/", 1) if "/_rels/" in m else ("", m[len("_rels/"):])
            owner = (d + "/" if d else "") + fn[:-len(".rels")]
            if owner not in pkg.members:
                errs.append(("orphan-rels-item", m))
    return errs
