"""Reference model for W3CDTF (W3C NOTE-datetime, 1997) timestamps, written from the note.

    YYYY | YYYY-MM | YYYY-MM-DD | YYYY-MM-DDThh:mmTZD | YYYY-MM-DDThh:mm:ssTZD | YYYY-MM-DDThh:mm:ss.sTZD
    TZD = Z | +hh:mm | -hh:mm       (a local time with offset +hh:mm is hh:mm AHEAD of UTC)

Independent of python-pptx: no strptime, no slicing at column 19; one anchored regular expression,
integer range checks, a hand-written days-from-civil count, and integer second arithmetic. The only
library call is the construction of the resulting `datetime` from an ordinal.

`parse(text)` returns None when `text` is not W3CDTF, else a `Parsed` tuple
    (granularity, tzd_kind, utc)
where granularity is one of GRANULARITIES, tzd_kind is "none" | "Z" | "offset", and utc is a naive
`datetime.datetime` (the equivalent UTC time; date-only forms denote midnight at the start of the
period) or the string "out-of-range" when the UTC equivalent is outside years 1..9999.
"""

from __future__ import annotations

import collections
import datetime as _dt
import re

GRANULARITIES = ("year", "month", "day", "minute", "second", "fraction")

Parsed = collections.namedtuple("Parsed", "granularity tzd_kind utc")

_RE = re.compile(
    r"\A(\d{4})"
    r"(?:-(\d{2})"
    r"(?:-(\d{2})"
    r"(?:T(\d{2}):(\d{2})(?::(\d{2})(?:\.(\d+))?)?(Z|[+-]\d{2}:\d{2}))?"
    r")?)?\Z"
)

_MDAYS = (31, 28, 31, 30, 31, 30, 31, 31, 30, 31, 30, 31)


def is_leap(y: int) -> bool:
    return y % 4 == 0 and (y % 100 != 0 or y % 400 == 0)


def days_in_month(y: int, m: int) -> int:
    return 29 if (m == 2 and is_leap(y)) else _MDAYS[m - 1]


def days_before_year(y: int) -> int:
    """Days from 0001-01-01 to y-01-01 (proleptic Gregorian)."""
    p = y - 1
    return p * 365 + p // 4 - p // 100 + p // 400


def ordinal(y: int, m: int, d: int) -> int:
    """1 for 0001-01-01, like date.toordinal but computed by hand."""
    n = days_before_year(y)
    for mm in range(1, m):
        n += days_in_month(y, mm)
    return n + d


_MAX_ORD = ordinal(9999, 12, 31)


def offset_minutes(tzd: str) -> int:
    """Minutes the local time is AHEAD of UTC (Z -> 0, +05:30 -> 330, -08:00 -> -480)."""
    if tzd == "Z":
        return 0
    sign = 1 if tzd[0] == "+" else -1
    return sign * (int(tzd[1:3]) * 60 + int(tzd[4:6]))


def parse(text: str):
    m = _RE.match(text)
    if m is None:
        return None
    ys, mos, ds, hs, mis, ss, fs, tzd = m.groups()
    y = int(ys)
    mo = int(mos) if mos is not None else 1
    d = int(ds) if ds is not None else 1
    if y < 1 or not (1 <= mo <= 12) or not (1 <= d <= days_in_month(y, mo)):
        return None
    if hs is None:
        gran = "year" if mos is None else ("month" if ds is None else "day")
        return Parsed(gran, "none", _dt.datetime(y, mo, d))
    h, mi = int(hs), int(mis)
    s = int(ss) if ss is not None else 0
    if h > 23 or mi > 59 or s > 59:  # leap seconds and 24:00 are outside W3CDTF
        return None
    if tzd != "Z" and (int(tzd[1:3]) > 23 or int(tzd[4:6]) > 59):
        return None
    micro = int((fs + "000000")[:6]) if fs is not None else 0
    gran = "minute" if ss is None else ("second" if fs is None else "fraction")
    # seconds since 0001-01-01T00:00:00 of the local reading, then move to UTC: UTC = local - offset
    total = (ordinal(y, mo, d) - 1) * 86400 + h * 3600 + mi * 60 + s
    total -= offset_minutes(tzd) * 60
    days, rem = divmod(total, 86400)
    if days < 0 or days + 1 > _MAX_ORD:
        return Parsed(gran, "Z" if tzd == "Z" else "offset", "out-of-range")
    base = _dt.datetime.fromordinal(days + 1)
    utc = base.replace(hour=rem // 3600, minute=(rem % 3600) // 60, second=rem % 60, microsecond=micro)
    return Parsed(gran, "Z" if tzd == "Z" else "offset", utc)


def self_test():
    """Hand-computed truth table; returns a list of failures (empty = ok)."""
    D = _dt.datetime
    table = [
        ("1997", ("year", "none", D(1997, 1, 1))),
        ("1997-07", ("month", "none", D(1997, 7, 1))),
        ("1997-07-16", ("day", "none", D(1997, 7, 16))),
        # the note's own example: 1994-11-05T08:15:30-05:00 == 1994-11-05T13:15:30Z
        ("1994-11-05T08:15:30-05:00", ("second", "offset", D(1994, 11, 5, 13, 15, 30))),
        ("1994-11-05T13:15:30Z", ("second", "Z", D(1994, 11, 5, 13, 15, 30))),
        ("1997-07-16T19:20+01:00", ("minute", "offset", D(1997, 7, 16, 18, 20))),
        ("1997-07-16T19:20:30.45+01:00", ("fraction", "offset", D(1997, 7, 16, 18, 20, 30, 450000))),
        ("2003-12-31T10:14:55-14:00", ("second", "offset", D(2004, 1, 1, 0, 14, 55))),
        ("2004-03-01T00:00:00+00:15", ("second", "offset", D(2004, 2, 29, 23, 45, 0))),
        ("1900-03-01T00:00:00+00:15", ("second", "offset", D(1900, 2, 28, 23, 45, 0))),
        ("0001-01-01T00:00:00+00:15", ("second", "offset", "out-of-range")),
        ("9999-12-31T23:59:59-00:15", ("second", "offset", "out-of-range")),
        ("0001-01-01T00:00:00-14:00", ("second", "offset", D(1, 1, 1, 14, 0, 0))),
        ("2001-02-29", None), ("2001-13", None), ("999", None), ("2001-02-03T04:05:06", None),
        ("2001-02-03T24:00:00Z", None), ("2001-02-03T04:05:60Z", None), ("2001-02-03T04:05Z ", None),
        ("2001-02-03 04:05:06Z", None), ("2001-02-03Z", None), ("0000", None),
    ]
    bad = []
    for text, exp in table:
        got = parse(text)
        got_t = None if got is None else tuple(got)
        if got_t != exp:
            bad.append("parse(%r) = %r, expected %r" % (text, got_t, exp))
    for y, m, d in [(1, 1, 1), (1900, 2, 28), (1900, 3, 1), (2000, 2, 29), (9999, 12, 31), (1970, 1, 1)]:
        if ordinal(y, m, d) != _dt.date(y, m, d).toordinal():
            bad.append("ordinal(%d,%d,%d)" % (y, m, d))
    return bad
