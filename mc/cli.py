"""./check <ID> [--tier quick|thorough] [--replay path] [--selftest]"""

from __future__ import annotations

import argparse
import importlib
import json
import os
import sys
import traceback


def main(argv=None):
    ap = argparse.ArgumentParser(prog="check")
    ap.add_argument("pid", nargs="?")
    ap.add_argument("--tier", default=os.environ.get("VERIF_TIER") or "quick", choices=["quick", "thorough"])
    ap.add_argument("--replay")
    ap.add_argument("--selftest", action="store_true")
    args = ap.parse_args(argv)

    if args.selftest:
        from mc import selftest
        return selftest.main()

    pid = args.pid.upper()
    try:
        seed = int(os.environ.get("VERIF_SEED", "0") or 0)
    except ValueError:
        seed = 0

    import pptx  # noqa: F401  (imported before any fork)
    exp = os.path.realpath(os.path.join(os.environ.get("VERIF_REPO", "/repo"), "src", "pptx"))
    got = os.path.realpath(os.path.dirname(pptx.__file__))
    if exp != got:
        print("HARNESS-ERROR pptx imported from %s, expected %s" % (got, exp), file=sys.stderr)
        return 2

    from mc.core import clock
    clock.install()

    from mc.core.run import Ctx, HarnessError
    module = importlib.import_module("mc.props.%s" % pid.lower())

    if args.replay:
        with open(args.replay) as f:
            data = json.load(f)
        msg = module.replay(data["replay"])
        if msg:
            print("VIOLATION property=%s replay=%s" % (pid, args.replay))
            print("  " + str(msg)[:2000])
            return 1
        print("replay of %s: property holds" % args.replay)
        return 0

    ctx = Ctx(pid, args.tier, seed, module)
    try:
        module.run(ctx)
        return ctx.finish()
    except HarnessError as e:
        err = str(e)
    except Exception:
        err = "\n" + traceback.format_exc()
    # The exploration stopped early (a harness invariant failed or an exception escaped a worker). Violations that
    # were recorded and merged before that are still reported if they reproduce on replay: a library that is broken
    # badly enough to upset the harness must not thereby silence what the harness has already seen. Without a
    # confirmed violation the run is a harness error (exit 2).
    print("HARNESS-ERROR property=%s %s" % (pid, err), file=sys.stderr)
    if ctx.violations:
        ctx.cap("the exploration stopped early: %s" % err.strip().splitlines()[-1][:200])
        try:
            rc = ctx.finish()
        except Exception:  # noqa: BLE001
            rc = 2
        if rc == 1:
            return 1
    return 2


if __name__ == "__main__":
    sys.exit(main())
