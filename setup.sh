#!/bin/bash
# Offline setup: nothing to build (pure Python); verify the interpreter and the repo's deps are importable.
set -e
cd "$(dirname "${BASH_SOURCE[0]}")"
PYTHONPATH="${VERIF_REPO:-/repo}/src:$PWD" /venv/bin/python -c "import lxml.etree, PIL, xlsxwriter, pptx, mc.cli; print('setup ok', pptx.__file__)"
./check --selftest
mkdir -p evidence replays
